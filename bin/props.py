"""Per-property configuration for bin/check: streams (generators of the Go harness), case counts
per tier, non-triviality rules, shrinkers."""


def _edits_nontrivial(case, obs):
    f = case.split()
    n = int(f[2])
    tags = sum(1 for i in range(n) for k in (1, 2, 3) if f[3 + 4 * i + k] != '0')
    return tags > 0 and obs.startswith('OK')


def _edits_shrink(case):
    f = case.split()
    coll, n = f[1], int(f[2])
    rows = [f[3 + 4 * i: 7 + 4 * i] for i in range(n)]
    out = []

    def emit(rs):
        out.append('E %s %d %s' % (coll, len(rs), ' '.join(' '.join(r) for r in rs)))
    for i in range(n):
        if n > 1:
            emit(rows[:i] + rows[i + 1:])
    for i in range(n):
        for k in (1, 2, 3):
            if rows[i][k] != '0':
                r = [list(x) for x in rows]
                r[i][k] = '0'
                emit(r)
    if coll != '0':
        out.append('E 0 %d %s' % (n, ' '.join(' '.join(r) for r in rows)))
    return out


import re


def _chain_compare(case, obs, model):
    m = re.sub(r' ; WF [0-4]$', '', model)
    obs = re.sub(r' ; DBG .*$', '', obs)
    if obs.startswith('BIND err') and m.startswith('BIND err'):
        return True
    return obs == m


def _sections(obs):
    d = {}
    for sec in obs.split(' ; '):
        t = sec.split(' ')
        d[t[0]] = t[1:]
    return d


def _nt_bound(case, obs):
    return obs.startswith('BIND ok')


def _nt_c01(case, obs):
    if not obs.startswith('BIND ok'):
        return False
    return any(t[0] in 'CE' and '()' not in t.split('>')[0] for t in _sections(obs).get('LOG', []))


def _nt_c02(case, obs):
    if not obs.startswith('BIND ok'):
        return False
    s = _sections(obs)
    return any(t[0] == 'J' and not t.endswith('()') for t in s.get('LOG', [])) or any(t.startswith('x(') and t != 'x()' for t in s.get('RES', []))


def _nt_c05(case, obs):
    return obs.startswith('BIND ok') and len(_sections(obs).get('LOG', [])) >= 3


def _nt_c07(case, obs):
    if not obs.startswith('BIND ok'):
        return False
    return any(t.split(':')[1] in ('1', '2') and t.endswith(':1') for t in _sections(obs).get('ORDER', []))


def _pair_compare(case, obs, model):
    a = obs.split(' ## ')
    b = model.split(' ## ')
    return len(a) == len(b) and all(_chain_compare(case, x, y) for x, y in zip(a, b))


def _condense_compare(case, obs, model):
    a = obs.split(' ## ')
    b = model.split(' ## ')
    if a[0] != b[0]:
        return False
    if len(a) == 1 or len(b) == 1:
        return len(a) == len(b)
    return _chain_compare(case, a[1], b[1])


def _nt_condense(case, obs):
    return obs.startswith('CONDENSE ok') and ' ## B RES' in obs


def _nt_pair(case, obs):
    return obs.startswith('BIND ok')


def _nt_c03(case, obs):
    if not obs.startswith('BIND ok'):
        return False
    return any(t.endswith(':0') and int(t.split(':')[0]) < 90 for t in _sections(obs).get('ORDER', []))


def _nt_c15(case, obs):
    if not obs.startswith('BIND ok'):
        return False
    return any(':u' in t for t in _sections(obs).get('RMAP', []))


def _nt_dbg(case, obs):
    return ' ; DBG ' in obs


def _nt_err(case, obs):
    return obs.startswith('BIND err')


def pair_stream(name, nq, nt):
    return dict(name=name, n_quick=nq, n_thorough=nt, nontrivial=_nt_pair, compare=_pair_compare, wf_check=False)


def _nt_c06(case, obs):
    if not obs.startswith('BIND ok'):
        return False
    return any(t.split(':')[1] in ('6', '2') and t.endswith(':1') and int(t.split(':')[0]) < 90 for t in _sections(obs).get('ORDER', []))


def conc_stream(name, nq, nt):
    return dict(name=name, n_quick=nq, n_thorough=nt, nontrivial=lambda c, o: not o.startswith('BAD') and not o.startswith('RACE'),
                compare=lambda c, o, m: o == m, race=True)


CONC_NOTE = ('Trusted: Coq kernel, extraction, OCaml driver, Go harness; sync.Mutex / sync.RWMutex / sync.Once / sync/atomic are assumed to meet their '
             'documented specification; the Go scheduler and memory model are not modelled: data-race freedom is observed by the race detector on the '
             'explored schedules (the stream runs under -race with seeded yield perturbation at the verif hooks), not proved.')


def chain_stream(nq, nt, nontrivial, name='chain'):
    return dict(name=name, n_quick=nq, n_thorough=nt, nontrivial=nontrivial, compare=_chain_compare, wf_check=True)


CHAIN_RULE = ('stream chain: provider chains of 1-9 providers over 3-6 of 10 concrete pool types and 4 interfaces (literals, static '
              'candidates, injectors, fallible injectors with the TerminalError at a random result position and per-serial failure '
              'masks, wrappers calling inner() 0-3 times with pass-through returns and their own error results nil on even steps, Parallel, final), annotations Required/Desired/Shun/'
              'MustConsume/ConsumptionOptional/Loose/AllowReturnShadowing/NonFinal/Cacheable/MustCache/Memoize/Singleton/NotCacheable/'
              'Cluster, Reflective twins (a Reflective wrapper or final function returns reflect.ValueOf values: dynamic types, the invalid Value for a nil interface), optional init, sessions of 1-7 init/invoke steps; grown forward so that about half bind; '
              'one splitmix64 state; the real Bind/init/invoke observation (final working list with class/group/include, remaps, '
              'results, call log with provenance-tagged values) must equal the extracted Coq model\'s; ')
CHAIN_NOTE = ('Trusted: Coq kernel, extraction (ExtrOcamlBasic), OCaml driver, Go harness and the verif hooks; Go code is modelled, not verified; '
              'the refinement theorem chain_refines assumes the decidable check plan_wf; plan_wf is itself proved for every chain that binds '
              '(WfProofs.bind_plan_wf: compiled closures = reference projection of the plan, one invoke / at most one init function, clean base array, '
              'slot tables injective/disjoint/bounded, every read covered; the facts needed about the classification tables are checked by computation on '
              'the regenerated Registry.v) under one positional condition - no included per-invocation provider other than a plain injector before the '
              'invoke function - which is proved for cases without Reorder annotation (chain_refines_plain: no '
              'hypothesis left) and evaluated on every other bound case of the run (coverage.plan_wf_proved_cases / plan_wf_validated_only_cases; a case '
              'failing plan_wf is reported); the tie is differential testing bounded by the generator.')

HOOK_COMMITS = ['ae5437e']

PROPS = {
    'C01': dict(
        monitor=True,
        streams=[chain_stream(8000, 300000, _nt_c01), chain_stream(3000, 100000, _nt_c01, name='ifaceout'), chain_stream(4000, 150000, _nt_c01, name='ifacesub'),
                 dict(name='history', n_quick=800, n_thorough=20000, nontrivial=_nt_pair, compare=_pair_compare, wf_check=False),
                 dict(name='condense', n_quick=1500, n_thorough=50000, nontrivial=_nt_condense, compare=_condense_compare, wf_check=False)],
        rule=CHAIN_RULE + 'C01 non-trivial: the chain binds and some provider is called with at least one argument. stream history (as for C11, without the race '
             'detector): the Loose / interface-matching clause must also hold for providers from which other providers have been derived with further Loose annotations. '
             'stream ifaceout: chains with a Loose source, one or two decorators func(I) I and consumers of I, each static-eligible or not (interface-typed outputs)',
        level_text='Theorem chain_refines (Coq, no axioms): for every case whose plan passes plan_wf, every provider behaviour (wrappers as arbitrary '
                   'interaction trees over any world) and every init/invoke session, the slot machine that mirrors bind.go/generate.go yields the same '
                   'results and final world as the environment-passing reference semantics, in which a parameter is by definition the most recent '
                   'upstream value of its (remapped) type; plus upd_list_last/other (most recent wins, others untouched) and best_match_sound '
                   '(a different type only via Loose). C01_no_unallocated_parameter and C01_slot_tables_well_formed hold with no hypothesis about the plan: for every chain '
                   'Bind accepts, every parameter of every included provider has an allocated slot, that of the type its source puts out (providesReturns wiring '
                   'invariant + select_sound + allocation theorem), and the slot tables are injective, disjoint and bounded. plan_wf itself is proved '
                   '(C01_bound_chain_is_well_formed); C01_every_plain_chain_refines_reference states the refinement with no hypothesis about the plan for every '
                   'case without Reorder annotation (with or without init function), C01_every_bound_chain_refines_reference for every other bound chain under one positional '
                   'condition that the run evaluates. The whole pipeline model '
                   '(classification, selection, slots, machine) is tied to /repo by comparing full observations on generated chains.',
        level_note=CHAIN_NOTE, design_ref='DESIGN.md section 8 (C01)',
        assumptions=['plan_wf: proved for every bound chain under one positional condition (proved for cases without Reorder, evaluated on the others)', 'reflect.Value.Call passes what it is given'],
    ),
    'C02': dict(
        monitor=True,
        streams=[chain_stream(8000, 300000, _nt_c02), chain_stream(3000, 100000, _nt_c02, name='ifaceout'), chain_stream(4000, 150000, _nt_c02, name='ifacesub')],
        rule=CHAIN_RULE + 'C02 non-trivial: the chain binds and a wrapper receives values from inner() or invoke returns values',
        level_text='Theorems exec_refines_sem / chain_refines (Coq, no axioms): the machine\'s final array represents the reference up environment '
                   '(final function\'s returns overridden by each wrapper\'s own returns; the environment of the last inner() call; all zero when the '
                   'remainder did not run); run_sem lemmas state the three clauses of the property on the reference semantics. Tied to /repo by the '
                   'chain correspondence (values returned by inner() and by invoke carry provenance tags). C02_no_unallocated_received_value (no hypothesis about the plan): every value an included provider from the invoke function on receives from inner() is read from an allocated up slot, that of the type its source below returns.',
        level_note=CHAIN_NOTE, design_ref='DESIGN.md section 8 (C02)',
        assumptions=['plan_wf: proved for every bound chain under one positional condition (proved for cases without Reorder, evaluated on the others)'],
    ),
    'C04': dict(
        monitor=True,
        streams=[chain_stream(5000, 200000, _nt_err, name='malformed'), chain_stream(3000, 100000, _nt_bound),
                 chain_stream(2000, 50000, _nt_bound, name='reorder'), chain_stream(2000, 50000, _nt_bound, name='ifaceout'),
                 dict(name='edits', n_quick=2000, n_thorough=50000, nontrivial=_edits_nontrivial), conc_stream('memo', 100, 2500)],
        rule=CHAIN_RULE + 'stream malformed: a generated chain with 1-3 injected defects (literal or wrapper in last position, anonymous func parameter/result, '
             'typed nil function, unhashable inputs on Memoize/Cacheable providers, conflicting cache and selection annotations, invoke/init passed as non-pointer, '
             'nil or pointer to a non-function, unsatisfiable Required inputs, unreceived returns, MustConsume without consumer, annotations naming foreign types, '
             'everything NonFinal, TerminalError returned by a wrapper); every Bind/init/invoke runs under recover and a watchdog; on a Bind error the caller\'s '
             'function variables must still be nil; C04 non-trivial: Bind returns an error (malformed) / the chain binds and runs (other streams); also the '
             'reorder and edits streams',
        level_text='Theorems run_safe (a chain whose plan passes plan_wf never hands reflect.Call an invalid Value, for every behaviour and session), sem_ok '
                   '(the reference semantics is total), reorder_perm, must_cache_or_fail, nil function rejected; every stage of the Bind model is total by '
                   'construction (structural recursion or explicit fuel); Coq, no axioms. Tied to /repo by comparing bind-ok/bind-error, panics, hangs and '
                   '"variables untouched on error" on malformed and ordinary chains. Fuel: C04_flow_checks_never_out_of_fuel, C04_eliminate_unused_fuel_suffices, '
                   'C04_keep_closure_fuel_suffices (selection loops) and C04_reorder_sort_fuel_suffices + C04_reorder_runs_that_sort (the topological '
                   'sort of Reorder: the fuel the model gives it is the potential of its start state - queued entries plus, per node, one step and one per '
                   'before-edge and per produced / received type - and with it the sort ends with empty queues and more fuel gives the same run), all '
                   'unconditional: the fuelled loops of the model are the unfuelled loops of the Go code.',
        level_note=CHAIN_NOTE + ' Panics inside reflect/runtime on exotic values are exercised, not proved; defects D13 D14 D19 D22-D25 were repaired in /repo.',
        design_ref='DESIGN.md section 8 (C04)',
        assumptions=['fuel of the selection loops is proved sufficient (FuelProofs.v); and for the topological sort of Reorder (TopoFuel.v), unconditionally'],
    ),
    'C05': dict(
        monitor=True,
        streams=[chain_stream(8000, 300000, _nt_c05), chain_stream(2500, 80000, _nt_c05, name='editchain'), chain_stream(2000, 60000, _nt_c05, name='nooutmotif'),
                 dict(name='edits', n_quick=2000, n_thorough=50000, nontrivial=_edits_nontrivial), chain_stream(2500, 80000, _nt_c05, name='reorder'), dict(name='condense', n_quick=1500, n_thorough=50000, nontrivial=_nt_condense, compare=_condense_compare, wf_check=False)],
        rule=CHAIN_RULE + 'stream editchain: ordinary chains with named edits (InsertBeforeNamed / InsertAfterNamed / ReplaceNamed, also adjacent ones) whose execution order must be '
             'that of the edited list; stream edits: the named-edit algorithm on generated lists (as for C18). stream nooutmotif: injectors without outputs carrying Cacheable-family '
             'annotations listed among per-invocation providers, two or three invocations (they run at their listed position on every invocation). C05 non-trivial: the chain binds and at least three call events are logged',
        level_text='Theorem sem_order (Coq, no axioms): in the reference semantics, for every program and every choice of inner() call counts, the '
                   'call log is the listed order, each provider once per traversal, the remainder once per inner() call; exec_refines_sem and '
                   'static_refines transfer it to the machine (same final world for every behaviour; static part = fold over the listed order). '
                   'Tied to /repo by comparing the final working order and the call log. C05_selection_keeps_the_list (selection only marks: the list it returns is the list it was given, entry by entry) and C05_final_list_is_listed_order (without Reorder the final working list is the assembled list), both without hypotheses. End to end without any hypothesis on the plan: C05_log_of_every_plain_chain - for every case without Reorder annotation and init function that binds, the log of k invocations is session_log (invoke function; included static injectors once, in the first invocation; included per-invocation providers in working-list order, once per inner() call below a wrapper).',
        level_note=CHAIN_NOTE, design_ref='DESIGN.md section 8 (C05)',
        assumptions=['plan_wf: proved for every bound chain under one positional condition (proved for cases without Reorder, evaluated on the others)'],
    ),
    'C06': dict(
        monitor=True,
        streams=[chain_stream(6000, 200000, _nt_c06, name='static'), chain_stream(3000, 100000, _nt_bound),
                 chain_stream(2000, 50000, _nt_c06, name='ifaceout'), pair_stream('cacheperm', 5000, 150000),
                 chain_stream(2000, 60000, _nt_bound, name='femotif'), chain_stream(2000, 60000, _nt_bound, name='nooutmotif'), dict(name='history', n_quick=600, n_thorough=15000, nontrivial=_nt_pair, compare=_pair_compare, wf_check=False)],
        rule=CHAIN_RULE + 'stream static: the same generator biased to literals, Cacheable/MustCache/Memoize/Singleton/NotCacheable providers with inputs from '
             'literals, init arguments, other static providers or invoke arguments, init functions and sessions of 2-7 steps; C06 non-trivial: the chain binds '
             'and includes a static injector; the monitor compares class/group of every provider, the number of calls of every provider over the session and '
             'what init returns. stream cacheperm: a chain (half of them with one type replaced by an interface on the consuming side) with one non-fallible provider marked Cacheable, paired with the same chain without the mark; monitor: when the unmarked chain binds and the provider receives a per-invocation value there, the marked chain binds too and the two observations are identical (the provider is simply not hoisted)',
        level_text='Theorems about the table GENERATED from characterize.go on every run: static_requires (only cacheable, non-NotCacheable functions in a static '
                   'context are hoisted), taint_sound (a provider reading a type supplied by invoke or an earlier per-invocation provider is never hoisted), '
                   'must_cache_or_fail, hoist_sufficient; and about the machine: static_not_rerun, done_sticky, base_frozen, first_run_sets_done (the static '
                   'chain runs exactly in the first init / first invoke and its results are what every invocation sees); Coq, no axioms. The table facts are '
                   'vm_compute checks over the generated Registry.v, so editing the table re-checks them. End to end: C06_static_part_runs_once_per_bound_chain (cases without Reorder annotation and init function, no hypothesis on the plan).',
        level_note=CHAIN_NOTE + ' tools/regen pins the source text of the simple predicates and fails closed on unrecognised table statements.',
        design_ref='DESIGN.md section 8 (C06)',
        assumptions=['sync.Once semantics for concurrent first invocations: see C10'],
    ),
    'C07': dict(
        monitor=True,
        streams=[chain_stream(8000, 300000, _nt_c07), chain_stream(3000, 100000, _nt_c07, name='femotif')],
        rule=CHAIN_RULE + 'stream femotif: small shaped chains - a fallible injector carrying Memoize/Cacheable annotations on an invoke argument that may or may not be '
             'usable as a map key, under an optional wrapper receiving error; two or three fallible static injectors in a row, the first failing or not, with and '
             'without an init function returning error and a per-invocation consumer of error. C07 non-trivial: the chain binds and includes a fallible (static or run) injector',
        level_text='Theorems sem_fallible_cut / sem_fallible_pass (reference semantics: a failing fallible injector makes the rest irrelevant and yields '
                   'the all-zero up environment plus error; a nil TerminalError is transparent), exec_refines_sem and static_refines (the machine '
                   'implements it, run and static part); Coq, no axioms. Tied to /repo by the chain correspondence with failure masks over sessions.',
        level_note=CHAIN_NOTE, design_ref='DESIGN.md section 8 (C07)',
        assumptions=['plan_wf: proved for every bound chain under one positional condition (proved for cases without Reorder, evaluated on the others)'],
    ),
    'C03': dict(
        monitor=True,
        streams=[chain_stream(8000, 300000, _nt_c03), chain_stream(3000, 100000, _nt_c03, name='ifacesub'), chain_stream(1500, 50000, _nt_c03, name='bigchain'),
                 chain_stream(3000, 100000, _nt_c03, name='reorder'), dict(name='history', n_quick=600, n_thorough=15000, nontrivial=_nt_pair, compare=_pair_compare, wf_check=False)],
        rule=CHAIN_RULE + 'stream reorder: chains with Reorder sprinkled on injectors and wrappers (selection after a sort that really moves providers). stream history (as for '
             'C11, without the race detector): annotating a derived provider must not change what the provider it was derived from asks for (MustConsume, Loose, ... are per provider). '
             'C03 non-trivial: the chain binds and at least one supplied provider is excluded',
        level_text='Theorems select_sound (whatever the elimination heuristics did, a chain that binds has, under the final marks, an included '
                   'source for every input of every included provider and an included consumer for every must-consume flow; Required providers are '
                   'included), validate_sound (worklist soundness from the dependency-closure invariant), provides_returns_closed, chain_refines (only '
                   'included providers are compiled and run); Coq, no axioms. The clause "no other provider runs unless something it produced is actually '
                   'received" is checked by an independent Coq monitor on the implementation\'s plan (nearest-producer / nearest-returner analysis) and is '
                   'NOT a theorem: it is refuted by known finding D6 and claimed only where the faithful model\'s own plan is justified. End to end without any hypothesis on the plan: C03_only_included_providers_run - for every case without Reorder annotation and init function that binds, whatever is logged in a session of any length is the invoke function or an included provider.',
        level_note=CHAIN_NOTE + ' Known finding D6 (four listed inputs) is replayed on every run.', design_ref='DESIGN.md section 8 (C03)',
        assumptions=['justification clause validated by monitor only; D6 region excluded'],
    ),
    'C08': dict(
        monitor=True,
        streams=[conc_stream('isolation', 60, 1500), chain_stream(3000, 100000, _nt_bound),
                 dict(name='history', n_quick=400, n_thorough=12000, nontrivial=_nt_pair, compare=_pair_compare, wf_check=False, race=True), conc_stream('memo', 100, 2500), conc_stream('once', 60, 1500)],
        rule='stream isolation: a fixed chain of pure providers (static injector, injector, wrapper calling inner() twice, fallible injector, then a Parallel '
             'wrapper calling inner() from two goroutines / a wrapper calling inner() three times / an injector, final) invoked by 2-11 goroutines x 20-170 '
             'invocations each in a shuffled order with distinct arguments, under the race detector with seeded Gosched/sleep perturbation at the yield hooks; '
             'every concurrent result must equal the result of the same invocation run alone; non-trivial: the scenario ran to completion; plus the chain '
             'stream (sessions of several invocations: nothing leaks from one invocation into the next)',
        level_text='Theorems invocations_isolated (interleaving semantics: for every schedule, what an invocation has computed on its private copy is what it '
                   'computes alone, and the base collection is unchanged — any number of invocations), base_frozen (an invocation never modifies the base '
                   'values), chain_refines (an invocation\'s result is a function of base, arguments and behaviours), once_exactly_once (racing first '
                   'invocations run the static chain once); Coq, no axioms.',
        level_note=CONC_NOTE, design_ref='DESIGN.md section 8 (C08)',
        assumptions=['that values := baseValues.Copy() yields a private collection is the modelling assumption the stress stream and the chain correspondence test'],
    ),
    'C09': dict(
        monitor=True,
        streams=[conc_stream('memo', 120, 3000), chain_stream(2500, 80000, _nt_bound, name='femotif')],
        rule='stream memo: one Memoize\'d provider (per-invocation, per-invocation fallible, static keyed by init arguments, or with an interface-typed input fed '
             'nil / "" / 0 / a struct) shared by 1-3 chains, used by 2-8 goroutines x 3-14 uses each with keys drawn from 1-4 values, under the race detector with '
             'yield perturbation; observed: calls per key (must be 1 for every key used) and equality of the results seen for one key; the scenario is also run '
             'through the extracted interleaving model on a round-robin schedule; non-trivial: the scenario ran to completion. stream femotif (chain format, compared '
             'with the model): Memoize\'d injectors (fallible or not, also supplied through the Reflective interface) on an input that is hashable, unhashable ([]int, map) or '
             'comparable but never acceptable as a cache key (unexported interface field), static (a literal) or per invocation (an invoke argument): which class they get and how often they are called',
        level_text='Theorem memo_once_per_key (interleaving semantics of the cacher — mutex held across lookup, call, store: for every key assignment, any number '
                   'of concurrent uses and every schedule the function is called at most once per key and every use that returned observed that call\'s result), '
                   'with its invariant Minv; C09_cacher_never_deadlocks (in every reachable state every use has returned or some use can step); '
                   'C09_unkeyable_inputs_call_each_time (direct-call model for inputs that cannot be map keys: each use calls the function itself exactly once and '
                   'observes its own result, nothing fails or waits; mode 4 of the memo stream is compared with a run of it); Coq, no axioms. Key injectivity '
                   'and the decision which values can be keys are covered by the stream only (defects D2, D12, D13 repaired in /repo).',
        level_note=CONC_NOTE, design_ref='DESIGN.md section 8 (C09)',
        assumptions=['Go map keys built from [n]any compare by value equality'],
    ),
    'C10': dict(
        monitor=True,
        streams=[conc_stream('once', 80, 2000), chain_stream(3000, 100000, _nt_c06, name='static'), chain_stream(2000, 60000, _nt_bound, name='femotif')],
        rule='stream once: 1-4 chains sharing a Singleton provider, each with its own Cacheable static injector, bound with init functions; 2-13 goroutines race '
             'init (with different arguments) and invoke on every chain under the race detector with yield perturbation; observed: the Singleton ran once, each '
             'static chain ran once, every init call of a chain returned the same values; then, sequentially, Singleton(p) and Memoize(p) - annotated copies of one '
             'provider, same id - are bound into two collections each, in a seed-chosen order: the Singleton copies run once whatever their input, the Memoize '
             'copies once per input; plus the static stream (sequential sessions with repeated init calls)',
        level_text='Theorems once_exactly_once (any number of racing callers, every schedule: at most one call, every caller that returned observed its result), '
                   'C10_once_never_deadlocks (in every reachable state every caller has returned or some caller can step), '
                   'static_not_rerun, init_idempotent, first_run_sets_done (the static chain runs in the first init / first invoke only; later init arguments '
                   'are ignored); Coq, no axioms.',
        level_note=CONC_NOTE, design_ref='DESIGN.md section 8 (C10)',
        assumptions=['sync.Once.Do runs its argument at most once and returns after it completed'],
    ),
    'C11': dict(
        monitor=True,
        streams=[dict(name='history', n_quick=1200, n_thorough=40000, nontrivial=_nt_pair, compare=_pair_compare, wf_check=False, race=True),
                 chain_stream(2000, 50000, _nt_bound, name='regroup'), conc_stream('memo', 100, 2500), conc_stream('once', 40, 1000)],
        rule='stream once (as for C10) ends with a bind-order scenario: Singleton(p) and Memoize(p), annotated copies of one provider, are bound into two '
             'collections each, in either order; the Singleton copies must run once whatever the input and the Memoize copies once per input. '
             'stream history (run under the race detector): a chain without Memoize/Singleton (their process-wide caches are history by design, C09) is built once, '
             'one provider possibly standing behind a GenerateFromInjectionChain generator; two collections are derived from it (Sequence, Append); then a seeded '
             'history of 3-10 operations runs over a growing pool of collections sharing its providers: Append (twice on the same collection), annotation of whole '
             'collections (Required/Desired/Shun/Cacheable/MustCache/NotCacheable/NonFinal/Reorder/Parallel), Sequence around a collection, Bind with the original '
             'signatures followed by init/invoke, Bind with func() and func() error, Condense (both error treatments) and Bind of the result, DownFlows/UpFlows/String, '
             're-annotation of single shared providers (Loose/MustConsume/ConsumptionOptional/AllowReturnShadowing and flags), 2-4 concurrent Binds of pool members, '
             'Run, SetCallback; afterwards the original collection is bound and observed twice, the two early derivations are observed, a collection derived '
             'after the history is observed in a context where the generator picks another replacement, and the original is observed once more; all six '
             'observations must equal the model\'s for the flat lists (i.e. equal each other and a never-used copy); non-trivial: the chain binds. '
             'stream regroup: as for C13 (Append twice on one base)',
        level_text='Theorems C11_history_frame (specification: no sequence of derive/annotate/bind/inspect operations over a pool of collections changes an existing '
                   'collection), C11_bind_history_independent, C11_bind_twice_same and C11_derived_independent (binding after any history yields the observation '
                   'of the original contents; a derived collection and its source do not affect each other), for all histories; Coq, no axioms. In the specification '
                   'collections are values, so these hold by construction of the model; what is checked is that the real package - slices of shared provider '
                   'pointers, copy-on-annotate - refines it: the history stream runs the same operation kinds against /repo, sequentially and concurrently under '
                   'the race detector, and compares with the extracted model.',
        level_note=CHAIN_NOTE + ' Aliasing inside the Go heap (shared backing arrays, shared annotation maps) is not modelled; it is observed through behaviour on the '
                   'generated histories and by the race detector only. Memoize/Singleton caches are excluded from the history stream.',
        design_ref='DESIGN.md section 8 (C11)',
        assumptions=['heap aliasing is not modelled; refinement of the value-semantics specification is validated by differential histories'],
    ),
    'C12': dict(
        monitor=True,
        streams=[conc_stream('debuglock', 60, 1500),
                 chain_stream(4000, 100000, _nt_dbg, name='debugging'),
                 pair_stream('dbgneutral', 4000, 100000), dict(name='history', n_quick=500, n_thorough=15000, nontrivial=_nt_pair, compare=_pair_compare, wf_check=False, race=True)],
        rule='stream debugging: Reorder-rich chains in which every provider has a unique name and one to three providers (possibly the final function) take '
             '*Debugging; besides the usual observation the harness records, from the first non-nil Debugging value a provider receives, NamesIncluded and the '
             'INCLUDED/EXCLUDED counts of IncludeExclude; monitor: NamesIncluded is exactly the names of the included entries of the final working list in '
             'execution order (which the call log is checked against by the correspondence), one INCLUDED line per included and one EXCLUDED line per '
             'other supplied provider. stream dbgneutral: a chain without any *Debugging parameter, paired with the same chain with such a parameter added '
             'to one provider; monitor: same validity, the same other providers included, same results and call log once the added argument is dropped. '
             'stream debuglock: 2-11 goroutines each Bind three chains, a chosen subset failing (missing provider), under the race detector with yield perturbation '
             'at the lock hooks; observed: all Binds return (watchdog), failing ones report an error (every other one wrapped by the caller with %w) whose DetailedError starts with the plain text and mentions '
             'no other goroutine\'s collection, succeeding ones yield working chains',
        level_text='Theorem debug_lock_no_deadlock_no_crosstalk (interleaving semantics of the RWMutex protocol of bindFast / captureDoBindDebugging: for any '
                   'mix of failing and succeeding Binds and every schedule some unfinished Bind can always step, and every line logged while debugging is on '
                   'belongs to the Bind holding the write lock) and chain_refines (what runs is the included providers of the final list, which is what the '
                   'Debugging value is filled from), and end to end C12_whatever_runs_is_listed_as_included (cases without Reorder annotation and init function, '
                   'no hypothesis on the plan: whatever any session logs carries the include mark of the final list, so a provider reported as excluded '
                   'never runs); Coq, no axioms.',
        level_note=CONC_NOTE + ' Invocations (not Binds) running while a failed Bind is being replayed also log into its trace; that is outside the statement. '
                   'Defect D26 (asking for *Debugging changed which providers are included) was repaired in /repo.',
        design_ref='DESIGN.md section 8 (C12)',
        assumptions=['Go RWMutex: a waiting writer blocks new readers'],
    ),
    'C13': dict(
        monitor=True,
        streams=[chain_stream(5000, 150000, _nt_bound, name='regroup'), pair_stream('unused', 5000, 150000), chain_stream(2000, 50000, _nt_bound),
                 chain_stream(2000, 50000, _nt_bound, name='unusedmotif')],
        rule=CHAIN_RULE + 'stream regroup: ordinary chains (a third of them with ReplaceNamed/InsertBeforeNamed/InsertAfterNamed edits, which must survive every re-spelling) whose provider list the harness builds through a seeded recipe of nested Sequences (named, unnamed, '
             'empty neighbours, three levels), base.Append (with a second, unrelated Append on the same base afterwards), Provide names and annotations '
             '(Desired/Cacheable/Required/Shun/NonFinal) lifted from every member of a run to the enclosing collection; the observation must equal the model '
             'run on the flat list (the leaves). stream unused: a chain in which nothing mentions Unused, paired with the same chain with an Unused parameter '
             'added to the final function, a Required provider, the invoke or the init function; monitor: same validity, same user providers included, same '
             'results and call log once the added argument is dropped; non-trivial: the base binds',
        level_text='Theorems C13_contents_are_leaves (for every construction expression over Sequence/Append/annotation-of-a-collection, the collection built holds '
                   'the leaves in order with the enclosing annotations applied), C13_names_irrelevant and C13_grouping_neutral (two lists equal up to names, no named '
                   'edit present: identical Bind result, plan, results and call log of the whole model), C13_unused_param_neutral_partial (reference semantics: '
                   'parameters of a type the chain does not otherwise read, ignored by the behaviours, change neither world nor returned values, for all programs); Coq, '
                   'no axioms. Partial for the Unused half: that selection includes the same providers in the variant (the synthetic Unused provider and receiver '
                   'shift positions) is validated by the pair stream, not proved.',
        level_note=CHAIN_NOTE, design_ref='DESIGN.md section 8 (C13)',
        assumptions=['Unused neutrality of selection validated differentially, not proved'],
    ),
    'C14': dict(
        monitor=True,
        streams=[pair_stream('desired', 5000, 150000), chain_stream(3000, 100000, _nt_bound), dict(name='history', n_quick=600, n_thorough=15000, nontrivial=_nt_pair, compare=_pair_compare, wf_check=False)],
        rule=CHAIN_RULE + 'stream desired: a chain and a chosen Desired or auto-desired provider (outside clusters, not Shun\'d), paired with the same chain '
             'with that provider Required; monitor: included iff the variant binds, and then identical order, results and call log; non-trivial: base binds',
        level_text='Theorems desired_kept_in_trials (in every trial elimination a Desired/auto-desired provider is kept exactly like a Required one, so it can '
                   'only be dropped when it cannot be included at all), validate_required, select_sound and C14_checks_ok_must_consume (an included MustConsume '
                   'producer has an included consumer of that type); Coq, no axioms. The equivalence "included iff the Required variant binds, same behaviour" is '
                   'validated by the differential stream (impl = model on both chains, and the relation checked on the implementation), not proved in full '
                   '(lock-step simulation of two selection runs was not attempted).',
        level_note=CHAIN_NOTE, design_ref='DESIGN.md section 8 (C14)',
        assumptions=['Desired = Required-if-possible proved for the trial eliminations only; whole-run equivalence validated differentially'],
    ),
    'C15': dict(
        monitor=True,
        streams=[chain_stream(8000, 300000, _nt_c15), chain_stream(3000, 100000, lambda c, o: True, name='shadowmotif'), dict(name='history', n_quick=800, n_thorough=20000, nontrivial=_nt_pair, compare=_pair_compare, wf_check=False)],
        rule=CHAIN_RULE + 'stream shadowmotif: stacks of two to four wrappers returning the same type, some marked AllowReturnShadowing for it, over a final function '
             'that may or may not return it (non-trivial: every case; about half bind, a third are refused for shadowing). C15 non-trivial: the chain binds and some provider receives a returned value; an independent Coq monitor checks on the implementation\'s plan '
             'that every returned type has an included receiver above and that no wrapper shadows unannounced',
        level_text='Theorems C15_returns_received (from select_sound: in a chain that binds every returned, non-ConsumptionOptional type of an included provider has an '
                   'included receiver), C15_return_flow_is_must_consume, check_shadowing_sound (a passing shadowing check means no un-announced override of an '
                   'un-received return from below); Coq, no axioms. Tied to /repo by the chain correspondence plus the plan-level monitor.',
        level_note=CHAIN_NOTE + ' Defect D21 (ConsumptionOptional[T] made all returns optional) was repaired in /repo.', design_ref='DESIGN.md section 8 (C15)',
        assumptions=[],
    ),
    'C16': dict(
        monitor=True,
        streams=[pair_stream('prune', 5000, 150000), pair_stream('unusedprune', 2000, 60000)],
        rule='stream prune: chains without Reorder/Cluster/static-eligible annotations (otherwise as the chain stream), paired with the same chain with every '
             'provider the real Bind excluded deleted; monitor: the pruned chain binds, includes the same providers and yields the same results and call log; '
             'non-trivial: base binds; chains with a Shun\'d provider (or nject\'s own Shun\'d Unused providers) are the region of known finding D6 and are '
             'compared with the model only',
        level_text='Theorems chain_refines / compile_all_skips_excluded (run time: behaviour is the reference semantics of the plan, which mentions included '
                   'providers only) and C16_included_self_sufficient_partial (the included set passes all checks using included providers only); Coq, no axioms. '
                   'Idempotence of the selection heuristic under deletion is NOT proved: it is validated by the differential stream and refuted on chains with '
                   'Shun (known finding D6). C16_exclusion_is_a_mark: the excluded providers stay in the working list, unchanged, nothing is reordered around them.',
        level_note=CHAIN_NOTE + ' Known finding D6e is replayed on every run.', design_ref='DESIGN.md section 8 (C16)',
        assumptions=['bind-time inertness validated differentially, not proved'],
    ),
    'C17': dict(
        monitor=True,
        streams=[pair_stream('displace', 5000, 150000), chain_stream(4000, 100000, _nt_bound, name='reorder'),
                 chain_stream(3000, 100000, _nt_bound, name='reorderwrap')],
        rule='stream displace: a chain (no fallible failures, wrappers call inner() once, so that behaviour does not depend on the global serial) paired with the '
             'same chain with one plain injector marked Reorder and listed at another position; monitor (when the base binds with every provider included, the '
             'injector is the only producer of its output types and each of its inputs has one source): the variant binds, includes the same providers and every '
             'call receives each value from the same producer (logs compared with serials stripped). stream reorder: ordinary chains with Reorder sprinkled on '
             'injectors/wrappers; monitor: providers not marked Reorder keep their listed relative order and all call arguments equal the reference semantics\'. '
             'stream reorderwrap: chains without static providers in which most wrappers and fallible injectors are Reorder\'d and Required, so that the sort '
             'places per-invocation providers around the invoke function (the region where plan_wf is validated, not proved: about 18% of the bound cases)',
        level_text='C17_refinement_when_only_injectors_are_reordered: when only plain injectors (or providers outside the per-invocation part) carry Reorder - the '
                   'chains of the first sentence - every chain that binds refines the reference semantics of its plan, no hypothesis validated on the case '
                   '(runs_after_invoke_mild, from reorder_keeps_listed_providers and assemble_layout). '
                   'Theorems reorder_perm (the reordered list is a permutation of the input, all lists), C17_non_reorder_keep_listed_order '
                   '(reorder_keeps_listed_order: the providers not marked Reorder appear in the reordered list in exactly their listed order, for every list, '
                   'every constraint graph and any fuel; proved by an invariant of the topological sort - the next non-Reorder provider emitted, through a queue or '
                   'forced from the cannotReorder list, is the first one not emitted yet, because each has a strong edge to its predecessor), C17_no_reorder_identity, '
                   'chain_refines and select_sound (whatever order reorder produced, selection is sound and every executed provider receives its inputs as in C01); '
                   'Coq, no axioms. That a displaced injector lands between its unique producers and its consumers (first sentence of the property) is validated '
                   'by the differential streams (impl = model of reorder.go on both chains, relation checked on the implementation), not proved.',
        level_note=CHAIN_NOTE + ' Defect D16 (static taint computed before Reorder) was repaired in /repo.', design_ref='DESIGN.md section 8 (C17)',
        assumptions=['placement of a displaced Reorder\'d injector between its producers and consumers is validated, not proved'],
    ),
    'C18': dict(
        monitor=True,
        streams=[dict(name='edits', n_quick=4000, n_thorough=150000, nontrivial=_edits_nontrivial),
                 chain_stream(3000, 100000, _nt_bound, name='editchain')],
        rule='stream edits: lists of 1-14 named no-op providers with 0-5 ReplaceNamed/InsertBeforeNamed/InsertAfterNamed '
             'directives (runs, duplicated/missing/self targets, double tags), drawn from one splitmix64 state; '
             'a case is non-trivial when it has at least one directive and binds; distinct = distinct case lines. stream editchain: ordinary chains (all annotations, selection, '
             'static hoisting, wrappers) in which a subset of the providers is named and one or two carry a directive; the whole observation must equal the model\'s, in which the '
             'edits are applied before the NonFinal shift and classification',
        level_text='Theorems (Coq, no axioms) about the list-level model of handleReplaceByName: the edited list is a permutation of the input minus replaced target blocks, untagged providers keep their relative order, a carried-out insertion is adjacent to its target, bad targets and double tags fail; for all lists and directives. The model is tied to /repo by running the extracted model and the real Bind on the same generated lists and comparing execution order / error class.',
        level_note='Trusted: Coq kernel, extraction (ExtrOcamlBasic), OCaml driver, Go harness; the Go code itself is modelled, not verified; the tie is differential testing bounded by the generator (lists <=14, <=5 directives).',
        design_ref='DESIGN.md section 8 (C18)',
        assumptions=['execution order of no-op injectors is the observable for the edited order',
                     'a directive whose target block contains the edited provider is an error (fixed in /repo, see known-findings.txt)'],
    ),
    'C19': dict(
        monitor=True,
        streams=[dict(name='condense', n_quick=6000, n_thorough=200000, nontrivial=_nt_condense, compare=_condense_compare, wf_check=False)],
        rule='stream condense: ordinary chains (wrapper-rich and fallible-rich variants, NonFinal tails, Loose interface inputs, static-eligible members, '
             'clusters, no init, *Debugging and Unused parameters removed) whose provider list is condensed with treatErrorAsTerminal false/true. Observed: '
             'DownFlows/UpFlows of the raw collection (public API), whether Condense succeeds, the condensed provider\'s inputs and outputs (its own '
             'DownFlows/UpFlows), (A) the same description bound directly with an invoke function taking those inputs and returning those outputs, invoked '
             'twice, (B) the outer chain [condensed provider, final function handing its parameters back up] bound with the same invoke signature, invoked '
             'twice with the same arguments. Compared with the model: raw flows, success of Condense, signature, and the whole observation of A. Monitors on '
             'the implementation: the reported inputs/outputs satisfy the statement itself (extracted Coq predicate mon_C19_sig: sufficient, nothing but those, outputs = returned '
             'types, evaluated declaratively rather than by running netFlows); B returns what A returns (or, with treatErrorAsTerminal and a non-nil error, zero values and that error, the final function '
             'not called), the providers inside are called with the same arguments and results in the same order, and the downstream consumer receives exactly '
             'A\'s results. Non-trivial: Condense succeeds and B binds',
        level_text='Theorems C19_down_inputs_sufficient_partial (netFlows: every parameter of every provider, resolved against the providers listed before it, is produced '
                   'by one of them or reported as an unresolved input), C19_down_inputs_necessary (nothing else is reported: each reported input is what some parameter resolves to while no '
                   'provider before that one puts it out), C19_up_flows_complete and C19_produced_is_real (every returned type is reported as produced when '
                   'no received type is unresolved; nothing else is), for all provider lists; C19_condensed_value / C19_condensed_terminal (reference semantics of the '
                   'condensed node under both error treatments: downstream sees what calling the bound sub-chain returns; a non-nil error stops the outer chain); Coq, '
                   'no axioms. The model of flows.go / the signature part of condense.go is tied to /repo by the condense stream; that a chain supplying the reported '
                   'inputs binds (selection) and that the embedded provider equals the direct call are validated differentially (A against the model, B against A).',
        level_note=CHAIN_NOTE + ' Defects D17, D18 (flows), D27, D28 (Condense) were repaired in /repo. The *Debugging pass-through of Condense (bypassDebug) is not exercised.',
        design_ref='DESIGN.md section 8 (C19)',
        assumptions=['sufficiency proved at the level of types; bindability and embedding equivalence validated differentially'],
    ),
    'C20': dict(
        monitor=True,
        streams=[pair_stream('refltwin', 4000, 100000),
                 dict(name='curry', n_quick=6000, n_thorough=300000, nontrivial=lambda c, o: o.startswith('CURRY ok'), compare=lambda c, o, m: o == m, wf_check=False),
                 dict(name='saveto', n_quick=3000, n_thorough=100000, nontrivial=lambda c, o: o.startswith('SAVETO ok'), compare=lambda c, o, m: o == m, wf_check=False),
                 dict(name='filler', n_quick=6000, n_thorough=300000, nontrivial=lambda c, o: o.startswith('FILL ok'), compare=lambda c, o, m: o == m, wf_check=False),
                 chain_stream(3000, 100000, _nt_bound), chain_stream(2000, 60000, _nt_bound, name='femotif')],
        rule=CHAIN_RULE + 'stream femotif: annotated (Memoize/Cacheable/MustCache) injectors on hashable and unhashable inputs, a quarter of them supplied through the Reflective interface. stream refltwin: a chain of plain functions paired with the same chain in which a random subset of injectors, wrappers and the final function '
             'is supplied through MakeReflective / ReflectiveWrapper; a Reflective wrapper and a Reflective final function hand back values built with '
             'reflect.ValueOf (dynamic types, not the interface types Out() declares) and every wrapper marks in the log a value received from inner() whose '
             'type is not the declared one; monitor: the two observations (plan, wiring, results, call log) are identical. '
             'stream curry: original functions of 1-7 parameters over 3-5 types (repeats, a func-typed parameter now and then) and curried signatures keeping a '
             'random sub-multiset in random order, plus invalid variants (type curried twice, extra/missing parameter, nothing curried, first curried input a function); '
             'the chain supplies per-invocation values for the curried-away types, is invoked 1-4 times and the curried function is called after each invocation: the '
             'arguments the original function receives must be those direct computation gives (C20B-style staleness shows on the second invocation). '
             'stream saveto: 1-6 pointers over 2-6 types (same type repeated, func pointer first), 1-4 invocations. '
             'stream filler: struct types built with reflect.StructOf (1-5 fields per level, nesting up to depth 5, tags nofill/fill/skip/-/whole/blob/fields, user tags) '
             'and two declared types with unexported fields, pointer and value models, post-actions by tag, by name and by type taking the field or its address, '
             'a third of them with one or two further parameters (half of those of the field\'s own type, before or after the field parameter: ties in '
             'addFieldFiller; the model\'s field_param says which parameter is the field, the others come from the chain), with and without WithFill; 1-3 invocations; observed: Bind error or, per invocation, the order and arguments of the post-actions and every leaf of the '
             'struct the final function receives',
        level_text='Theorems C20_reflective_irrelevant (replacing any subset of providers by Reflective equivalents leaves the whole model observation unchanged), '
                   'C20_curry_args_typed / C20_curry_curried_distinct / C20_curry_pass_order (every parameter of the original function gets a value of its type, '
                   'the injected one or the k-th argument of that type), C20_saveto, C20_struct_plan_paths + C20_fill_spec (for any tags and post-actions the inputs '
                   'are stored at pairwise independent existing places, each lands at its field, nothing else changes) and C20_struct_plan_plain (untagged structs: '
                   'exactly the exported fields, recursively, in declaration order), C20_post_action_field_parameter / C20_post_action_without_field_parameter / C20_post_action_uses_field_parameter (the parameter of a '
                   'post-action function that stands for the field is the first one of the field\'s type or a pointer to it; none means no match; the struct plan records the action with that parameter\'s address-of flag), C20_struct_plan_fuel_suffices (the fuelled traversal of the struct type never fails for lack of fuel); all lists, shapes and depths; Coq, no axioms. The models of utils.go and filler.go '
                   'are tied to /repo by the curry, saveto and filler streams; post-action order and the tag rules are part of the model and validated by the stream, '
                   'their specification beyond the plain case is the model itself.',
        level_note=CHAIN_NOTE + ' WithMethodCall, FillExisting, MatchToOpenInterface and field/function type conversion in post-actions are not exercised.',
        design_ref='DESIGN.md section 8 (C20)',
        assumptions=['tag and post-action rules of MakeStructBuilder are modelled and validated differentially; proved: where inputs land and the plain-struct field set'],
    ),
}

SHRINKERS = {
    'edits': _edits_shrink,
}
