"""Orchestration shared by every property check (see bin/check)."""
import sys, os, json, subprocess, time, shutil, re, fcntl, tempfile, hashlib

ROOT = os.path.dirname(os.path.dirname(os.path.abspath(__file__)))
BUILD = os.path.join(ROOT, 'build')
COQ = os.path.join(ROOT, 'coq')
REPO = '/repo'

GOENV = dict(os.environ, GOFLAGS='-mod=mod', GOPROXY='off', GOSUMDB='off', GOTOOLCHAIN='local',
             CGO_ENABLED=os.environ.get('CGO_ENABLED', '1'))

TRUSTED_BASE = [
    'Coq 8.16.1 kernel (coqc); vm_compute used in some proofs; no native_compute',
    'axioms: none (Print Assumptions of every property theorem must say "Closed under the global context")',
    'extraction: ExtrOcamlBasic only (Extract Inductive bool/option/unit/list/prod/sumbool/sumor; no Extract Constant), OCaml 4.13.1, ocaml/driver.ml (parsing/printing)',
    'correspondence harness /verif/harness (Go, reflect.MakeFunc providers) and bin/vlib.py: differential testing model vs /repo',
    'tools/regen: transcribes characterize.go registry tables into coq/model/Registry.v',
    'modelled, not verified: all Go code of /repo, reflect, sync, sync/atomic, Go maps, scheduler and memory model',
]

FORBIDDEN = re.compile(r'\b(Admitted|admit|Axiom|Parameter|Conjecture|Unset\s+Guard|bypass_check|Admit\s+Obligations|type-in-type|impredicative-set)\b')


def sh(cmd, timeout=600, cwd=None, env=None, inp=None):
    t0 = time.time()
    try:
        p = subprocess.run(cmd, shell=isinstance(cmd, str), cwd=cwd, env=env, input=inp,
                           stdout=subprocess.PIPE, stderr=subprocess.STDOUT, timeout=timeout, text=True)
        return p.returncode, p.stdout, time.time() - t0
    except subprocess.TimeoutExpired as e:
        out = e.stdout or ''
        if isinstance(out, bytes):
            out = out.decode('utf8', 'replace')
        return 124, out + '\nTIMEOUT', time.time() - t0


class Lock:
    def __enter__(self):
        os.makedirs(BUILD, exist_ok=True)
        self.f = open(os.path.join(BUILD, '.lock'), 'w')
        fcntl.flock(self.f, fcntl.LOCK_EX)
        return self

    def __exit__(self, *a):
        fcntl.flock(self.f, fcntl.LOCK_UN)
        self.f.close()


def build_all(verbose=False):
    """Rebuild everything that depends on /repo's working tree or on /verif sources.
    Returns dict(ok, stage, log)."""
    logs = []
    with Lock():
        os.makedirs(BUILD, exist_ok=True)
        # --- Go harness against the current /repo (hooks enabled by the build tag) ---
        try:
            shutil.copyfile(os.path.join(REPO, 'go.sum'), os.path.join(ROOT, 'harness', 'go.sum'))
        except OSError:
            pass
        rc, out, dt = sh(['go', 'build', '-tags', 'verif', '-o', os.path.join(BUILD, 'harness'), '.'],
                         timeout=600, cwd=os.path.join(ROOT, 'harness'), env=GOENV)
        logs.append('[go build harness] rc=%d %.1fs\n%s' % (rc, dt, out))
        if rc != 0:
            return dict(ok=False, stage='harness-build', log='\n'.join(logs))
        # the same harness under the Go race detector, for the concurrency streams
        rc, out, dt = sh(['go', 'build', '-race', '-tags', 'verif', '-o', os.path.join(BUILD, 'harness-race'), '.'],
                         timeout=900, cwd=os.path.join(ROOT, 'harness'), env=GOENV)
        logs.append('[go build -race harness] rc=%d %.1fs\n%s' % (rc, dt, out))
        if rc != 0:
            return dict(ok=False, stage='harness-build', log='\n'.join(logs))
        # --- regenerated model pieces ---
        regen_dir = os.path.join(ROOT, 'tools', 'regen')
        if os.path.exists(os.path.join(regen_dir, 'main.go')):
            rc, out, dt = sh(['go', 'build', '-o', os.path.join(BUILD, 'regen'), '.'], timeout=300, cwd=regen_dir, env=GOENV)
            logs.append('[go build regen] rc=%d %.1fs\n%s' % (rc, dt, out))
            if rc != 0:
                return dict(ok=False, stage='regen-build', log='\n'.join(logs))
            tmp = os.path.join(BUILD, 'Registry.v.new')
            rc, out, dt = sh([os.path.join(BUILD, 'regen'), os.path.join(REPO, 'characterize.go'), tmp], timeout=60)
            logs.append('[regen] rc=%d\n%s' % (rc, out))
            if rc != 0:
                return dict(ok=False, stage='regen', log='\n'.join(logs))
            dst = os.path.join(COQ, 'model', 'Registry.v')
            new = open(tmp).read()
            if not os.path.exists(dst) or open(dst).read() != new:
                open(dst, 'w').write(new)
        # --- Coq ---
        if not os.path.exists(os.path.join(COQ, 'Makefile')) or \
                os.path.getmtime(os.path.join(COQ, 'Makefile')) < os.path.getmtime(os.path.join(COQ, '_CoqProject')):
            rc, out, dt = sh('coq_makefile -f _CoqProject -o Makefile', cwd=COQ, timeout=60)
            logs.append('[coq_makefile] rc=%d\n%s' % (rc, out))
        rc, out, dt = sh('make -j16', cwd=COQ, timeout=3000)
        logs.append('[coq make] rc=%d %.1fs\n%s' % (rc, dt, out[-6000:]))
        if rc != 0:
            m = re.search(r'File "\./([^"]+)", line (\d+)', out)
            return dict(ok=False, stage='coq', log='\n'.join(logs), coq_file=m.group(1) if m else None, coq_out=out[-3000:])
        # --- extraction + driver ---
        ml = os.path.join(COQ, 'model.ml')
        drv = os.path.join(BUILD, 'driver')
        src = os.path.join(ROOT, 'ocaml', 'driver.ml')
        if not os.path.exists(ml):
            return dict(ok=False, stage='extract', log='\n'.join(logs) + '\nmodel.ml missing')
        if (not os.path.exists(drv)) or os.path.getmtime(drv) < max(os.path.getmtime(ml), os.path.getmtime(src)):
            od = os.path.join(BUILD, 'ocaml')
            os.makedirs(od, exist_ok=True)
            for f in (ml, ml + 'i', src):
                shutil.copy(f, od)
            rc, out, dt = sh('ocamlfind ocamlopt -O3 -w -a model.mli model.ml driver.ml -o ../driver.new && mv ../driver.new ../driver',
                             cwd=od, timeout=600)
            logs.append('[ocaml] rc=%d %.1fs\n%s' % (rc, dt, out))
            if rc != 0:
                return dict(ok=False, stage='ocaml', log='\n'.join(logs))
    return dict(ok=True, stage='', log='\n'.join(logs))


def coq_flags():
    return ['-Q', 'model', 'NJ', '-Q', 'proofs', 'NJ', '-Q', 'properties', 'NJ', '-Q', 'extract', 'NJ']


def check_obligations(prop, allowed_axioms=()):
    """Re-check coq/properties/<prop>.v with coqc, parse Print Assumptions output.
    Returns dict(obligations, discharged, theorems, problems)."""
    path = os.path.join(COQ, 'properties', prop + '.v')
    problems = []
    if not os.path.exists(path):
        return dict(obligations=0, discharged=0, theorems=[], problems=['missing ' + path])
    src = open(path).read()
    thms = re.findall(r'^\s*(?:Theorem|Lemma|Corollary|Example)\s+([A-Za-z0-9_\']+)', src, re.M)
    printed = re.findall(r'Print Assumptions\s+([A-Za-z0-9_\']+)\s*\.', src)
    for t in thms:
        if t not in printed:
            problems.append('theorem %s has no Print Assumptions' % t)
    with Lock():
        rc, out, dt = sh(['coqc'] + coq_flags() + ['properties/%s.v' % prop], cwd=COQ, timeout=900)
    if rc != 0:
        problems.append('coqc failed on properties/%s.v: %s' % (prop, out[-1500:]))
        return dict(obligations=len(thms), discharged=0, theorems=thms, problems=problems, out=out)
    # split output into one block per Print Assumptions
    blocks = re.split(r'(?=Closed under the global context|Axioms:)', out)
    blocks = [b for b in blocks if b.startswith('Closed under') or b.startswith('Axioms:')]
    discharged = 0
    if len(blocks) != len(printed):
        problems.append('expected %d Print Assumptions outputs, got %d' % (len(printed), len(blocks)))
    for name, b in zip(printed, blocks):
        if b.startswith('Closed under'):
            discharged += 1
        else:
            axs = re.findall(r'^([A-Za-z0-9_\.\']+)\s*:', b, re.M)
            bad = [x for x in axs if x not in allowed_axioms]
            if bad:
                problems.append('%s depends on axioms %s' % (name, bad))
            else:
                discharged += 1
    # forbidden constructs anywhere in the development
    for dp, dn, fn in os.walk(COQ):
        for f in fn:
            if f.endswith('.v'):
                txt = open(os.path.join(dp, f)).read()
                txt_nc = re.sub(r'\(\*.*?\*\)', '', txt, flags=re.S)
                m = FORBIDDEN.search(txt_nc)
                if m:
                    problems.append('forbidden construct %r in %s' % (m.group(0), os.path.join(dp, f)))
    return dict(obligations=len(printed), discharged=discharged if not problems else min(discharged, len(printed) - 1),
                theorems=printed, problems=problems, out=out)


def run_harness(stream, seed=None, n=None, replay=None, workdir=None, extra=(), race=False):
    """Run the Go harness; returns (cases, obs).  Handles the HANG protocol (exit 3 + -skip)."""
    cases_path = os.path.join(workdir, 'cases.%s.txt' % stream)
    obs_path = os.path.join(workdir, 'obs.%s.txt' % stream)
    for p in (obs_path,):
        if os.path.exists(p):
            os.remove(p)
    skip = 0
    while True:
        cmd = [os.path.join(BUILD, 'harness-race' if race else 'harness'), '-stream', stream, '-obs', obs_path, '-skip', str(skip)] + list(extra)
        if replay:
            cmd += ['-replay', replay]
        else:
            cmd += ['-seed', str(seed), '-n', str(n), '-cases', cases_path]
        rc, out, dt = sh(cmd, timeout=3000, env=dict(os.environ, GOMAXPROCS=os.environ.get('GOMAXPROCS', '16'),
                                                     GORACE='halt_on_error=1 exitcode=66'))
        obs = open(obs_path).read().split('\n') if os.path.exists(obs_path) else []
        if obs and obs[-1] == '':
            obs.pop()
        if rc == 3:
            skip = len(obs)
            continue
        if rc == 66:
            # the race detector stopped the process inside the case after the last observation
            m = re.search(r'WARNING: DATA RACE.*?(?=\n\n|\Z)', out, re.S)
            rep = ' '.join((m.group(0) if m else out[-1500:]).split())[:1200]
            with open(obs_path, 'a') as fo:
                fo.write('RACE ' + rep + '\n')
            skip = len(obs) + 1
            continue
        if rc != 0:
            raise RuntimeError('harness failed rc=%d: %s' % (rc, out[-2000:]))
        break
    src = replay if replay else cases_path
    cases = [l.strip() for l in open(src).read().split('\n')]
    cases = [l for l in cases if l and not l.startswith('#')]
    if len(cases) != len(obs):
        raise RuntimeError('harness produced %d observations for %d cases' % (len(obs), len(cases)))
    return cases, obs


def run_model(cases, mode='model', arg=None):
    cmd = [os.path.join(BUILD, 'driver')]
    if mode != 'model':
        cmd += ['-' + mode] + ([arg] if arg else [])
    rc, out, dt = sh(cmd, timeout=3000, inp='\n'.join(cases) + '\n')
    if rc != 0:
        raise RuntimeError('driver failed rc=%d: %s' % (rc, out[-2000:]))
    lines = out.split('\n')
    if lines and lines[-1] == '':
        lines.pop()
    if len(lines) != len(cases):
        raise RuntimeError('driver produced %d lines for %d cases: %s' % (len(lines), len(cases), out[-500:]))
    return lines


def run_monitor(prop, cases, obs):
    """Evaluate the extracted Coq monitor mon_<prop> on (case, implementation observation) pairs."""
    lines = [c + '\t' + o for c, o in zip(cases, obs)]
    return run_model(lines, mode='monitor', arg=prop)


def load_known(prop):
    path = os.path.join(ROOT, 'known-findings.txt')
    findings = []
    if not os.path.exists(path):
        return findings
    for l in open(path):
        l = l.strip()
        if not l or l.startswith('#') or l.startswith('fixed:'):
            continue
        m = re.match(r'finding:\s+property=(\S+)\s+id=(\S+)\s+stream=(\S+)\s+monitor=(\S+)\s+case=(\S+)\s+(.*)', l)
        if m and m.group(1) == prop:
            findings.append(dict(id=m.group(2), stream=m.group(3), monitor=m.group(4), case=os.path.join(ROOT, m.group(5)), what=m.group(6)))
    return findings


def write_evidence(prop, ev):
    os.makedirs(os.path.join(ROOT, 'evidence'), exist_ok=True)
    p = os.path.join(ROOT, 'evidence', prop + '.json')
    if os.environ.get('VERIF_NO_EVIDENCE'):
        # bin/seedtest runs the checks on deliberately broken trees: keep the committed evidence
        os.makedirs(os.path.join(BUILD, 'evidence-seedtest'), exist_ok=True)
        p = os.path.join(BUILD, 'evidence-seedtest', prop + '.json')
    tmp = p + '.tmp'
    json.dump(ev, open(tmp, 'w'), indent=1)
    os.replace(tmp, p)


def write_replay(prop, tag, content):
    d = os.path.join(BUILD, 'replays')
    os.makedirs(d, exist_ok=True)
    p = os.path.join(d, '%s-%s-%d.replay' % (prop, tag, int(time.time() * 1000) % 100000000))
    open(p, 'w').write(content)
    return p


def run_check(prop, tier, seed, replay=None):
    import props
    t0 = time.time()
    cfg = props.PROPS.get(prop)
    if cfg is None:
        print('unknown property', prop)
        return 2
    violations = []     # (replay_path, suffix)
    notes = []
    cov = dict(trusted_base=TRUSTED_BASE + cfg.get('trusted_extra', []),
               checker_cmd='cd /verif/coq && make -j16 && coqc -Q model NJ -Q proofs NJ -Q properties NJ properties/%s.v (Print Assumptions under every theorem)' % prop)
    b = build_all()
    obl = dict(obligations=0, discharged=0, theorems=[], problems=[])
    tie_broken = []     # descriptions of obligations/correspondences that no longer check
    if not b['ok']:
        tie_broken.append('build stage %s failed' % b['stage'])
        notes.append(b['log'][-3000:])
        if b['stage'] in ('harness-build', 'regen-build', 'regen'):
            # cannot run the implementation side at all
            rp = write_replay(prop, 'build', 'build failed at stage %s\n%s\n' % (b['stage'], b['log'][-4000:]))
            print('VIOLATION property=%s replay=%s no-failing-input-found' % (prop, rp))
            cov.update(obligations=1, discharged=0, evaluations=0, distinct_nontrivial=0, samples=[], explanation='build failed: ' + b['stage'])
            write_evidence(prop, dict(property_id=prop, tier=tier, seed=seed, level='proof', coverage=cov,
                                      assumptions=cfg.get('assumptions', []), wall_s=time.time() - t0, violations=1))
            return 1
    if b['ok'] or b['stage'] == 'coq':
        if b['ok']:
            obl = check_obligations(prop, cfg.get('allowed_axioms', ()))
            for p in obl['problems']:
                tie_broken.append('proof obligation: ' + p)
            if obl['obligations'] == 0:
                tie_broken.append('proof obligation: properties/%s.v states no theorem' % prop)
            if tier == 'thorough' and not replay:
                # independent re-check of the compiled property file and everything it depends on
                rc, out, dt = sh(['coqchk', '-silent', '-o', '-Q', 'model', 'NJ', '-Q', 'proofs', 'NJ', '-Q', 'properties', 'NJ', 'NJ.' + prop],
                                 timeout=6000, cwd=COQ)
                summary = out[out.find('CONTEXT SUMMARY'):] if 'CONTEXT SUMMARY' in out else out[-1500:]
                okchk = rc == 0 and all(re.search(k + r':\s*<none>', summary) for k in
                                        ('Axioms', 'type-in-type', 'unsafe \\(co\\)fixpoints', 'positivity is assumed'))
                cov['coqchk'] = dict(ok=okchk, seconds=round(dt, 1), summary=' '.join(summary.split())[:600])
                if not okchk:
                    tie_broken.append('coqchk does not accept properties/%s.vo without axioms: %s' % (prop, ' '.join(summary.split())[:400]))
        else:
            tie_broken.append('Coq development no longer compiles (%s): %s' % (b.get('coq_file'), b.get('coq_out', '')[-800:]))
    cov['obligations'] = max(obl['obligations'], 1)
    cov['discharged'] = obl['discharged'] if not tie_broken else min(obl['discharged'], max(obl['obligations'], 1) - 1)
    cov['theorems'] = obl['theorems']

    work = tempfile.mkdtemp(prefix='verif-%s-' % prop)
    total_cases = 0
    distinct = set()
    samples = []
    disagreements = []
    mon_fail = []
    dist = {}
    known = load_known(prop)
    known_reported = []
    try:
        # when the Coq development no longer compiles (e.g. a regenerated table breaks a proof) the
        # driver extracted from the last model that satisfied the theorems is still there: use it as
        # the reference to search for an input on which the property now fails
        have_driver = os.path.exists(os.path.join(BUILD, 'driver')) and (b['ok'] or b['stage'] == 'coq')
        streams = cfg['streams']
        jobs = []
        if replay:
            # replay file: first line "# stream=<name>", then case lines
            txt = open(replay).read()
            m = re.search(r'stream=(\S+)', txt)
            sname = m.group(1) if m else streams[0]['name']
            jobs.append((sname, dict(replay=replay), 'replay'))
        else:
            for s in streams:
                cdir = os.path.join(ROOT, 'corpus', s['name'])
                if os.path.isdir(cdir):
                    files = sorted(f for f in os.listdir(cdir) if f.endswith('.case'))
                    if files:
                        allc = os.path.join(work, 'corpus.%s.txt' % s['name'])
                        with open(allc, 'w') as o:
                            for f in files:
                                o.write(open(os.path.join(cdir, f)).read().rstrip('\n') + '\n')
                        jobs.append((s['name'], dict(replay=allc), 'corpus'))
                n = s['n_' + tier] if ('n_' + tier) in s else s['n_quick']
                jobs.append((s['name'], dict(seed=seed, n=n), 'generated'))
        for sname, kw, kind in jobs:
            scfg = next((s for s in streams if s['name'] == sname), dict(name=sname))
            cases, obs = run_harness(sname, workdir=work, extra=scfg.get('extra', ()), race=scfg.get('race', False), **kw)
            total_cases += len(cases)
            model = run_model(cases) if have_driver else None
            nontriv = scfg.get('nontrivial', lambda c, o: True)
            for i, (c, o) in enumerate(zip(cases, obs)):
                key = o.split(' ')[0]
                dist[sname + ':' + key] = dist.get(sname + ':' + key, 0) + 1
                if nontriv(c, o):
                    distinct.add(hashlib.sha1(c.encode()).hexdigest())
                if len(samples) < 4 and kind == 'generated' and nontriv(c, o):
                    samples.append(dict(stream=sname, case=c[:600], observation=o[:600]))
            if model is not None and scfg.get('wf_check'):
                nowf = [i for i, mline in enumerate(model) if mline.endswith('WF 0')]
                if nowf:
                    tie_broken.append('hypothesis plan_wf of the refinement theorem fails on %d generated case(s), first: %s' % (len(nowf), cases[nowf[0]]))
                # WF 1: plan_wf holds and is a theorem for this case (side conditions of WfProofs.bind_plan_wf hold);
                # WF 2: plan_wf holds, validated on the case only (Reorder placed a per-invocation provider before invoke)
                cov['plan_wf_checked'] = cov.get('plan_wf_checked', 0) + sum(1 for mline in model if mline.endswith('WF 1') or mline.endswith('WF 2'))
                cov['plan_wf_proved_cases'] = cov.get('plan_wf_proved_cases', 0) + sum(1 for mline in model if mline.endswith('WF 1'))
                cov['plan_wf_validated_only_cases'] = cov.get('plan_wf_validated_only_cases', 0) + sum(1 for mline in model if mline.endswith('WF 2'))
            if model is not None:
                cmp = scfg.get('compare', lambda c, o, m: o == m)
                bad = [i for i in range(len(cases)) if not cmp(cases[i], obs[i], model[i])]
                for i in bad:
                    disagreements.append(dict(stream=sname, case=cases[i], impl=obs[i], model=model[i]))
            # monitors: on disagreement, or always when the stream asks for it
            if have_driver and cfg.get('monitor'):
                ver = run_monitor(prop, cases, obs)
                for c, o, v in zip(cases, obs, ver):
                    if not v.startswith('PASS'):
                        mon_fail.append(dict(stream=sname, case=c, impl=o, verdict=v))
            elif not have_driver:
                # no model available: crashes and hangs are still visible
                for c, o in zip(cases, obs):
                    if o.startswith('PANIC') or o.startswith('HANG'):
                        mon_fail.append(dict(stream=sname, case=c, impl=o, verdict='FAIL ' + o))
        # known findings: replay each listed case
        if not replay and have_driver and cfg.get('monitor'):
            for k in known:
                if not os.path.exists(k['case']):
                    continue
                kc, ko = run_harness(k['stream'], replay=k['case'], workdir=work)
                kv = run_monitor(k['monitor'], kc, ko)
                if any(not v.startswith('PASS') for v in kv):
                    print('KNOWN-FINDING: property=%s %s (%s)' % (prop, k['what'], k['id']))
                    known_reported.append(k['id'])
                k['cases'] = set(kc)
        # drop monitor failures that are exactly a listed known finding's input
        known_cases = set()
        for k in known:
            known_cases |= k.get('cases', set())
        mon_fail = [m for m in mon_fail if m['case'] not in known_cases]
        disagreements = [d for d in disagreements if d['case'] not in known_cases]

        if mon_fail:
            m0 = shrink(prop, cfg, mon_fail[0], work)
            rp = write_replay(prop, 'fail', '# stream=%s\n# property %s fails on the implementation: %s\n# implementation observation: %s\n%s\n'
                              % (m0['stream'], prop, m0['verdict'], m0['impl'], m0['case']))
            violations.append((rp, ''))
        elif disagreements or tie_broken:
            body = '# stream=%s\n' % (disagreements[0]['stream'] if disagreements else cfg['streams'][0]['name'])
            for t in tie_broken:
                body += '# no longer checks: %s\n' % t.replace('\n', ' ')[:1500]
            for d in disagreements[:5]:
                body += '# correspondence broken: model=%s impl=%s\n%s\n' % (d['model'], d['impl'], d['case'])
            rp = write_replay(prop, 'tie', body)
            violations.append((rp, ' no-failing-input-found'))
    finally:
        shutil.rmtree(work, ignore_errors=True)

    cov.update(evaluations=total_cases, distinct_nontrivial=len(distinct),
               rule=cfg.get('rule', ''), samples=samples, programs=total_cases,
               disagreements_checked=total_cases, disagreements=len(disagreements),
               monitor_failures=len(mon_fail), distribution=dist, known_findings_replayed=known_reported,
               tie_broken=tie_broken[:5])
    ev = dict(property_id=prop, tier=tier, seed=seed, level='proof', coverage=cov,
              assumptions=cfg.get('assumptions', []), wall_s=round(time.time() - t0, 2), violations=len(violations))
    write_evidence(prop, ev)
    for rp, suffix in violations:
        print('VIOLATION property=%s replay=%s%s' % (prop, rp, suffix))
    if violations:
        return 1
    print('OK property=%s tier=%s obligations=%d/%d cases=%d distinct_nontrivial=%d disagreements=0 wall=%.1fs'
          % (prop, tier, cov['discharged'], cov['obligations'], total_cases, len(distinct), time.time() - t0))
    return 0


def shrink(prop, cfg, fail, work):
    """Greedy shrinking of a failing case with the stream's candidate generator."""
    import props
    gen = props.SHRINKERS.get(fail['stream'])
    if gen is None:
        return fail
    cur = fail
    for _round in range(40):
        cands = gen(cur['case'])
        if not cands:
            break
        cf = os.path.join(work, 'shrink.txt')
        open(cf, 'w').write('\n'.join(cands) + '\n')
        try:
            cs, ob = run_harness(cur['stream'], replay=cf, workdir=work)
            ver = run_monitor(prop, cs, ob)
        except Exception:
            break
        nxt = None
        for c, o, v in zip(cs, ob, ver):
            if not v.startswith('PASS'):
                nxt = dict(stream=cur['stream'], case=c, impl=o, verdict=v)
                break
        if nxt is None:
            break
        cur = nxt
    return cur
