package main

// Motif streams: small hand-shaped chains with random variation, for arrangements that the general
// chain generator reaches too rarely.  Each was added after a seeded change was missed.
//
// femotif (C07): (a) a fallible injector carrying Memoize / Cacheable-family annotations whose input
// is an invoke argument of a type that may or may not be usable as a map key, followed by further
// injectors, under an optional wrapper that receives error; (b) two or three fallible static
// injectors in a row, the first of which may fail, with and without an init function that returns
// error, and a per-invocation consumer of error.
//
// nooutmotif (C05/C06): injectors without outputs (side effects only) carrying Cacheable-family
// annotations, listed among per-invocation providers; several invocations.
//
// unusedmotif (C13/C16): a wrapper or injector that receives / takes nject.Unused and may be
// excluded (an input nobody provides), next to ordinary providers.
//
// shadowmotif (C15): stacks of two to four wrappers returning the same type, some of them marked
// AllowReturnShadowing for it, over a final function that may or may not return that type.

func init() {
	streams["femotif"] = &stream{gen: func(r *rng) string { return genFallibleMotif(r).encode() }, run: runChain}
	streams["shadowmotif"] = &stream{gen: func(r *rng) string { return genShadowMotif(r).encode() }, run: runChain}
	streams["nooutmotif"] = &stream{gen: func(r *rng) string { return genNoOutMotif(r).encode() }, run: runChain}
	streams["unusedmotif"] = &stream{gen: func(r *rng) string { return genUnusedMotif(r).encode() }, run: runChain}
	streams["d6loose"] = &stream{gen: func(r *rng) string { return genD6Loose().encode() }, run: runChain}
	streams["d6looseprune"] = &stream{gen: func(r *rng) string { return prunePair(genD6Loose().encode()) }, run: runPair}
	streams["unusedprune"] = &stream{gen: func(r *rng) string { return prunePair(genUnusedMotif(r).encode()) }, run: runPair}
}

func motifTypes(r *rng, n int) []int {
	perm := []int{pT0, pT1, pT2, pT3, pT4, pT5, pT6, pT7}
	for i := len(perm) - 1; i > 0; i-- {
		j := r.intn(i + 1)
		perm[i], perm[j] = perm[j], perm[i]
	}
	var out []int
	for i := 0; i < n; i++ {
		out = append(out, tcOf(perm[i]))
	}
	return out
}

func motifSteps(r *rng, c *ccase) {
	n := 1 + r.intn(3)
	for k := 0; k < n; k++ {
		if c.hasInit && r.chance(1, 3) {
			c.steps = append(c.steps, 0)
		}
		c.steps = append(c.steps, 1)
	}
	if c.hasInit && r.chance(4, 5) {
		c.steps = append([]int{0}, c.steps...)
	}
}

func genFallibleMotif(r *rng) *ccase {
	errT, teT := tcOf(pError), tcOf(pTerminal)
	ts := motifTypes(r, 5)
	c := &ccase{}
	pid := 0
	add := func(p *cprovider) *cprovider {
		pid++
		p.pid = pid
		c.provs = append(c.provs, p)
		return p
	}
	failmask := func() int {
		switch r.intn(3) {
		case 0:
			return 255
		case 1:
			return 0
		}
		return r.intn(256)
	}
	if r.chance(1, 2) {
		// (a) annotated fallible injector on a per-invocation input
		in := ts[0]
		if r.chance(1, 2) {
			in = tcOf([]int{pSlice, pMap, pOpaque, pOpaque, pArr2, pArr2}[r.intn(6)]) // not usable as a map key - or an array of structs, which is
		}
		if r.chance(1, 3) {
			// the input is static: a literal listed first
			pid++
			c.provs = append(c.provs, &cprovider{pid: pid, shape: 1, lit: in})
		} else {
			c.invIns = []int{in}
		}
		if r.chance(1, 2) {
			w := add(&cprovider{shape: 3, innerOuts: []int{errT}, outs: []int{errT}, passthru: r.chance(1, 2)})
			if r.chance(1, 3) {
				w.calls = []int{2}
			}
		}
		f := add(&cprovider{shape: 2, ins: []int{in}, outs: []int{ts[1], teT}, failmask: failmask()})
		if r.chance(1, 2) {
			f.outs = []int{teT, ts[1]}
		}
		switch r.intn(10) {
		case 8:
			f.annots |= aSingleton | aMemoize // contradictory: refused at Bind
		case 9:
			f.annots |= aSingleton
		case 0, 1, 2:
			f.annots |= aMemoize
		case 3:
			f.annots |= aCacheable
		case 4:
			f.annots |= aMemoize | aCacheable
		case 5:
			f.annots |= aMemoize | aMustCache // must be static but depends on an invoke argument: Bind fails
		case 6:
			f.annots |= aMustCache
		}
		if r.chance(1, 4) {
			f.annots |= aReflective // supplied through the Reflective interface: same classification, same caching rules
		}
		plain := false
		if r.chance(1, 3) {
			// a non-fallible sibling with the same annotations: nobody returns error then
			f.outs = []int{ts[1]}
			f.failmask = 0
			plain = true
			// drop the wrapper that receives error, if any
			var kept []*cprovider
			for _, q := range c.provs {
				if q.shape != 3 {
					kept = append(kept, q)
				}
			}
			c.provs = kept
		}
		add(&cprovider{shape: 2, ins: []int{ts[1]}, outs: []int{ts[2]}})
		fin := add(&cprovider{shape: 2, ins: []int{ts[2]}, outs: []int{ts[3]}})
		if r.chance(1, 3) {
			fin.ins = append(fin.ins, ts[1])
		}
		c.invOuts = []int{ts[3], errT}
		if plain {
			c.invOuts = []int{ts[3]}
		}
	} else {
		// (b) several fallible static injectors in a row
		if r.chance(1, 2) {
			c.hasInit = true
			if r.chance(3, 4) {
				c.initOuts = []int{errT}
			}
			if r.chance(1, 3) {
				c.initIns = []int{ts[4]}
			}
		}
		n := 2 + r.intn(2)
		prev := -1
		for i := 0; i < n; i++ {
			p := add(&cprovider{shape: 2, outs: []int{ts[i], teT}, failmask: 0})
			if prev >= 0 && r.chance(3, 4) {
				p.ins = []int{prev}
			}
			if len(c.initIns) > 0 && i == 0 && r.chance(1, 2) {
				p.ins = append(p.ins, c.initIns[0])
			}
			if i == 0 || r.chance(1, 3) {
				p.failmask = failmask()
			}
			switch r.intn(5) {
			case 0:
				p.annots |= aMemoize
			case 1:
				p.annots |= aMustCache
			default:
				p.annots |= aCacheable
			}
			prev = ts[i]
		}
		fin := add(&cprovider{shape: 2, ins: []int{prev}, outs: []int{ts[3]}})
		if r.chance(2, 3) {
			fin.ins = append(fin.ins, errT)
		}
		c.invOuts = []int{ts[3]}
		if r.chance(1, 2) {
			c.invOuts = append(c.invOuts, errT)
		}
	}
	motifSteps(r, c)
	return c
}

func genShadowMotif(r *rng) *ccase {
	errT := tcOf(pError)
	ts := motifTypes(r, 3)
	c := &ccase{}
	t := ts[0]
	if r.chance(1, 3) {
		t = errT
	}
	n := 2 + r.intn(3)
	for i := 0; i < n; i++ {
		w := &cprovider{pid: i + 1, shape: 3, outs: []int{t}, passthru: r.chance(1, 2)}
		// receives t from below or not
		if r.chance(1, 2) {
			w.innerOuts = []int{t}
		}
		if r.chance(1, 2) {
			w.sa = []int{t}
		} else if r.chance(1, 2) {
			w.sa = []int{ts[2]} // an allowance for some other type: t is still not allowed
		}
		if r.chance(1, 6) {
			w.outs = nil // a wrapper in the stack that does not return t at all
		}
		if r.chance(1, 5) {
			w.annots |= aRequired
		}
		c.provs = append(c.provs, w)
	}
	fin := &cprovider{pid: n + 1, shape: 2}
	if r.chance(1, 2) {
		fin.outs = []int{t}
	}
	if r.chance(1, 4) {
		fin.outs = append(fin.outs, ts[1])
		c.invOuts = append(c.invOuts, ts[1])
	}
	c.provs = append(c.provs, fin)
	c.invOuts = append(c.invOuts, t)
	motifSteps(r, c)
	return c
}

func genNoOutMotif(r *rng) *ccase {
	ts := motifTypes(r, 4)
	c := &ccase{}
	pid := 0
	add := func(p *cprovider) *cprovider {
		pid++
		p.pid = pid
		c.provs = append(c.provs, p)
		return p
	}
	if r.chance(1, 2) {
		c.invIns = []int{ts[0]}
	}
	n := 2 + r.intn(3)
	for i := 0; i < n; i++ {
		switch r.intn(3) {
		case 0:
			// side-effect only, maybe annotated
			p := add(&cprovider{shape: 2})
			if len(c.invIns) > 0 && r.chance(1, 3) {
				p.ins = []int{ts[0]}
			}
			switch r.intn(6) {
			case 0, 1, 2:
				p.annots |= aCacheable
			case 3:
				p.annots |= aMemoize
			case 4:
				p.annots |= aMustCache
			}
			if r.chance(1, 3) {
				p.annots |= aRequired
			}
		case 1:
			p := add(&cprovider{shape: 2, outs: []int{ts[1]}})
			if r.chance(1, 2) {
				p.annots |= aCacheable
			}
		default:
			add(&cprovider{shape: 2, outs: []int{ts[2]}})
		}
	}
	fin := add(&cprovider{shape: 2, outs: []int{ts[3]}})
	if r.chance(1, 2) {
		fin.ins = []int{ts[1]}
	}
	c.invOuts = []int{ts[3]}
	c.steps = []int{1, 1}
	if r.chance(1, 2) {
		c.steps = append(c.steps, 1)
	}
	return c
}

func genUnusedMotif(r *rng) *ccase {
	unusedT := tcOf(pUnused)
	ts := motifTypes(r, 4)
	c := &ccase{}
	pid := 0
	add := func(p *cprovider) *cprovider {
		pid++
		p.pid = pid
		c.provs = append(c.provs, p)
		return p
	}
	missing := ts[3] // nobody provides it
	n := 1 + r.intn(3)
	for i := 0; i < n; i++ {
		switch r.intn(4) {
		case 0:
			// wrapper whose inner() returns Unused
			w := add(&cprovider{shape: 3, innerOuts: []int{unusedT}, passthru: r.chance(1, 2)})
			if r.chance(1, 2) {
				w.ins = []int{missing}
			}
			if r.chance(1, 3) {
				w.annots |= aDesired
			}
		case 1:
			// injector taking Unused
			p := add(&cprovider{shape: 2, ins: []int{unusedT}, outs: []int{ts[0]}})
			if r.chance(1, 2) {
				p.ins = append(p.ins, missing)
			}
		case 2:
			add(&cprovider{shape: 2, outs: []int{ts[1]}})
		default:
			add(&cprovider{shape: 2, ins: []int{ts[1]}, outs: []int{ts[2]}})
		}
	}
	fin := add(&cprovider{shape: 2})
	if r.chance(1, 2) {
		fin.ins = []int{ts[0]}
	}
	if r.chance(1, 3) {
		fin.ins = append(fin.ins, ts[2])
	}
	if r.chance(1, 4) {
		fin.ins = append(fin.ins, tcOf(pDebug))
	}
	motifSteps(r, c)
	return c
}

// the shape of known finding D6f: [p2x func() T0; p1 Loose[I0](func() T?) ...] - two providers Loose
// for the same interface with different concrete types, the nearer one's type also produced earlier
func genD6Loose() *ccase {
	i0 := tcOf(pI0)
	// both T0-like types must implement I0: find two pool types implementing it
	var impls []int
	for _, k := range []int{pT0, pT1, pT2, pT3, pT4, pT5, pT6, pT7} {
		if pool[k].t.Implements(tcToPool[i0].t) {
			impls = append(impls, tcOf(k))
		}
	}
	c := &ccase{}
	if len(impls) < 2 {
		return c
	}
	t1, t2 := impls[0], impls[1]
	c.provs = []*cprovider{
		{pid: 1, shape: 2, outs: []int{t2}},
		{pid: 2, shape: 2, outs: []int{t1}, loose: []int{i0}},
		{pid: 3, shape: 2, outs: []int{t2}, loose: []int{i0}},
		{pid: 4, shape: 2, ins: []int{i0, t2}},
	}
	c.steps = []int{1}
	return c
}
