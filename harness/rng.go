package main

// splitmix64: every random choice of the harness derives from one state seeded by VERIF_SEED.
type rng struct{ s uint64 }

func newRng(seed uint64) *rng {
	// scramble the seed so that consecutive seeds do not give shifted copies of one stream
	r := &rng{s: seed*0xD1342543DE82EF95 + 0x632BE59BD9B4E019}
	r.s = r.next() ^ (seed << 32)
	r.s = r.next()
	return r
}

func (r *rng) next() uint64 {
	r.s += 0x9E3779B97F4A7C15
	z := r.s
	z = (z ^ (z >> 30)) * 0xBF58476D1CE4E5B9
	z = (z ^ (z >> 27)) * 0x94D049BB133111EB
	return z ^ (z >> 31)
}

// intn returns a value in [0,n)
func (r *rng) intn(n int) int {
	if n <= 0 {
		return 0
	}
	return int(r.next() % uint64(n))
}

// chance returns true with probability num/den
func (r *rng) chance(num, den int) bool { return r.intn(den) < num }

func (r *rng) pick(xs []int) int { return xs[r.intn(len(xs))] }

func (r *rng) fork() *rng { return &rng{s: r.next()} }
