package main

import (
	"fmt"
	"math/rand"
	"reflect"
	"runtime"
	"sort"
	"strings"
	"sync"
	"sync/atomic"
	"time"

	"github.com/muir/nject/v2"
)

// Concurrency streams.  A case is a scenario line; the observation is a canonical, schedule-
// independent summary that the interleaving theorems of coq/model/Conc.v predict:
//
//	M <seed> <mode> <nChains> <nGoroutines> <nUses> <key>*     memoize: one call per key, same result   (C09)
//	O <seed> <nChains> <nGoroutines>                           singleton / static chain / init once     (C10)
//	S <seed> <nGoroutines> <nInvocations> <shape>              isolation of concurrent invocations      (C08)
//	D <seed> <nGoroutines> <fails bitmask>                     debug lock: no deadlock, no cross-talk   (C12)
func init() {
	streams["memo"] = &stream{gen: genMemo, run: runMemo, timeout: 60 * time.Second}
	streams["once"] = &stream{gen: genOnce, run: runOnce, timeout: 60 * time.Second}
	streams["isolation"] = &stream{gen: genIsolation, run: runIsolation, timeout: 60 * time.Second}
	streams["debuglock"] = &stream{gen: genDebugLock, run: runDebugLock, timeout: 60 * time.Second}
}

// perturb installs a yield function that reschedules or sleeps at nject's yield points.
func perturb(seed int64) func() {
	var ctr uint64
	nject.VerifSetYield(func(point string) {
		x := atomic.AddUint64(&ctr, 0x9E3779B97F4A7C15) ^ uint64(seed)
		x ^= x >> 29
		switch x % 7 {
		case 0, 1:
			runtime.Gosched()
		case 2:
			time.Sleep(time.Duration(x%50) * time.Microsecond)
		}
	})
	return func() { nject.VerifSetYield(func(string) {}) }
}

// ---------- memo (C09) ----------
// mode: 0 per-invocation injector, 1 per-invocation fallible injector (TerminalError first),
//
//	2 static injector (key = init arguments of each chain), 3 interface-typed input with nil / "" / values
func genMemo(r *rng) string {
	mode := r.intn(5)
	nChains := 1 + r.intn(3)
	nG := 2 + r.intn(7)
	nUses := 3 + r.intn(12)
	nKeys := 1 + r.intn(4)
	if mode == 3 {
		nKeys = 2 + r.intn(4) // up to five kinds of interface values
	}
	var sb strings.Builder
	fmt.Fprintf(&sb, "M %d %d %d %d %d", r.next()%1000000, mode, nChains, nG, nUses)
	for i := 0; i < nG*nUses; i++ {
		fmt.Fprintf(&sb, " %d", r.intn(nKeys))
	}
	return sb.String()
}

type memoKey struct {
	A any
	B T0
}

// a comparable struct with an interface-typed field holding a comparable value: reached through the
// interface-typed input, it must still be accepted as a cache key
type memoNested struct {
	N int
	X any
}

func runMemo(line string) string {
	f := strings.Fields(line)
	seed, mode, nChains, nG, nUses := int64(atoi(f[1])), atoi(f[2]), atoi(f[3]), atoi(f[4]), atoi(f[5])
	keys := make([]int, 0, nG*nUses)
	for _, s := range f[6:] {
		keys = append(keys, atoi(s))
	}
	defer perturb(seed)()
	var mu sync.Mutex
	calls := map[memoKey]int{}
	var seq int32
	var unhashableCalls int32
	count := func(a any, b T0) T1 {
		_, isSlice := a.([]int)
		_, isOpaque := a.(Opaque)
		if isSlice || isOpaque {
			atomic.AddInt32(&unhashableCalls, 1)
			return T1{P: int(atomic.AddInt32(&seq, 1)), S: b.S}
		}
		mu.Lock()
		calls[memoKey{a, b}]++
		mu.Unlock()
		runtime.Gosched()
		return T1{P: int(atomic.AddInt32(&seq, 1)), S: b.S}
	}
	// key values: for mode 3 the interface input takes nil, "", 0 and a struct
	mkKey := func(k int) (any, T0) {
		if mode == 4 {
			// a value that cannot be a map key: the function must be called each time, no panic -
			// a slice, or a comparable struct with a non-nil interface in an unexported field
			if k%2 == 1 {
				return Opaque{P: k, S: 1, x: "opaque"}, T0{1, 1}
			}
			return []int{k}, T0{1, 1}
		}
		if mode == 3 {
			switch k {
			case 0:
				return nil, T0{1, 1}
			case 1:
				return "", T0{1, 1}
			case 2:
				return 0, T0{1, 1}
			case 3:
				return T2{7, 7}, T0{1, 1}
			default:
				return memoNested{7, "x"}, T0{1, 1}
			}
		}
		return k, T0{1, k + 1}
	}
	var memo any
	switch mode {
	case 1:
		memo = nject.Memoize(func(a any, b T0) (nject.TerminalError, T1) { return nil, count(a, b) })
	default:
		memo = nject.Memoize(func(a any, b T0) T1 { return count(a, b) })
	}
	type chain struct {
		invoke func(any, T0) T1
		invE   func(any, T0) (T1, error)
		invS   func() T1
		key    int
	}
	chains := make([]*chain, nChains)
	for i := range chains {
		c := &chain{}
		if mode == 2 {
			// static: the key is what init was given; one key per chain
			c.key = keys[i%len(keys)]
			var init func(any, T0)
			if err := nject.Sequence(fmt.Sprintf("m%d", i), memo, func(t T1) T1 { return t }).Bind(&c.invS, &init); err != nil {
				return "BAD bind: " + sanitize(err.Error())
			}
			a, b := mkKey(c.key)
			ini := init
			c.invoke = func(any, T0) T1 { ini(a, b); return c.invS() }
		} else if mode == 1 {
			if err := nject.Sequence(fmt.Sprintf("m%d", i), memo, func(t T1) T1 { return t }).Bind(&c.invE, nil); err != nil {
				return "BAD bind: " + sanitize(err.Error())
			}
			c.invoke = func(a any, b T0) T1 { t, _ := c.invE(a, b); return t }
		} else {
			if err := nject.Sequence(fmt.Sprintf("m%d", i), memo, func(t T1) T1 { return t }).Bind(&c.invoke, nil); err != nil {
				return "BAD bind: " + sanitize(err.Error())
			}
		}
		chains[i] = c
	}
	results := make([]map[memoKey][]T1, nG)
	var wg sync.WaitGroup
	var panicked atomic.Value
	start := make(chan struct{})
	for g := 0; g < nG; g++ {
		g := g
		results[g] = map[memoKey][]T1{}
		wg.Add(1)
		go func() {
			defer wg.Done()
			defer func() {
				if p := recover(); p != nil {
					panicked.Store(fmt.Sprint(p))
				}
			}()
			<-start
			for u := 0; u < nUses; u++ {
				k := keys[g*nUses+u]
				c := chains[(g+u)%nChains]
				if mode == 2 {
					k = c.key
				}
				a, b := mkKey(k)
				r := c.invoke(a, b)
				if mode == 4 {
					continue
				}
				results[g][memoKey{a, b}] = append(results[g][memoKey{a, b}], r)
			}
		}()
	}
	close(start)
	wg.Wait()
	if p := panicked.Load(); p != nil {
		return "BAD panic: " + sanitize(p.(string))
	}
	if mode == 4 {
		return fmt.Sprintf("MEMO-UNHASHABLE uses=%d calls=%d", nG*nUses, unhashableCalls)
	}
	// one call per distinct key used, every use of a key saw the same result
	used := map[memoKey]T1{}
	same := true
	for _, m := range results {
		for k, rs := range m {
			for _, r := range rs {
				if prev, ok := used[k]; ok && prev != r {
					same = false
				}
				used[k] = r
			}
		}
	}
	bad := []string{}
	for k := range used {
		if calls[k] != 1 {
			bad = append(bad, fmt.Sprintf("%v:%d", k.A, calls[k]))
		}
	}
	sort.Strings(bad)
	if len(bad) > 0 {
		return "BAD calls per key " + strings.Join(bad, ",")
	}
	if !same {
		return "BAD uses of one key observed different results"
	}
	return fmt.Sprintf("MEMO keys=%d one_call_per_key same_result", len(used))
}

// ---------- once (C10) ----------
func genOnce(r *rng) string {
	return fmt.Sprintf("O %d %d %d", r.next()%1000000, 1+r.intn(4), 2+r.intn(12))
}

func runOnce(line string) string {
	f := strings.Fields(line)
	seed, nChains, nG := int64(atoi(f[1])), atoi(f[2]), atoi(f[3])
	defer perturb(seed)()
	var singletonCalls int32
	// slow enough that the first invocations of the chains overlap: a second caller must wait for
	// the first call's result, not run the provider again
	single := nject.Singleton(func() T2 {
		runtime.Gosched()
		time.Sleep(200 * time.Microsecond)
		return T2{P: int(atomic.AddInt32(&singletonCalls, 1))}
	})
	var fallibleSingletonCalls int32
	fsingle := nject.Singleton(func() (T4, nject.TerminalError) {
		runtime.Gosched()
		time.Sleep(100 * time.Microsecond)
		return T4{P: int(atomic.AddInt32(&fallibleSingletonCalls, 1))}, nil
	})
	type chain struct {
		init   func(T0) (T2, T3)
		invoke func() T3
		static int32
	}
	chains := make([]*chain, nChains)
	for i := range chains {
		c := &chain{}
		chains[i] = c
		err := nject.Sequence(fmt.Sprintf("o%d", i),
			single,
			fsingle,
			nject.Cacheable(func(a T0, s T2, f T4) T3 {
				runtime.Gosched()
				return T3{P: int(atomic.AddInt32(&c.static, 1)), S: a.S + 1000*f.P}
			}),
			func(t T3) T3 { return t },
		).Bind(&c.invoke, &c.init)
		if err != nil {
			return "BAD bind: " + sanitize(err.Error())
		}
	}
	var wg sync.WaitGroup
	start := make(chan struct{})
	inits := make([][]string, nG)
	var panicked atomic.Value
	for g := 0; g < nG; g++ {
		g := g
		wg.Add(1)
		go func() {
			defer wg.Done()
			defer func() {
				if p := recover(); p != nil {
					panicked.Store(fmt.Sprint(p))
				}
			}()
			<-start
			// each goroutine starts with another chain, so that the static parts of different chains -
			// which share the Singleton providers - run at the same time
			for k := range chains {
				i := (k + g) % len(chains)
				c := chains[i]
				s, t := c.init(T0{1, 100*g + i}) // later init arguments must be ignored
				v := c.invoke()
				inits[g] = append(inits[g], fmt.Sprintf("%d:%d.%d.%d.%d", i, s.P, t.P, t.S, v.S))
			}
		}()
	}
	close(start)
	wg.Wait()
	if p := panicked.Load(); p != nil {
		return "BAD panic: " + sanitize(p.(string))
	}
	if singletonCalls != 1 || fallibleSingletonCalls != 1 {
		return fmt.Sprintf("BAD singleton ran %d times, fallible singleton %d times", singletonCalls, fallibleSingletonCalls)
	}
	for i, c := range chains {
		if c.static != 1 {
			return fmt.Sprintf("BAD static chain %d ran %d times", i, c.static)
		}
	}
	// every goroutine saw the same values from every init of a chain
	for g := 0; g < nG; g++ {
		sort.Strings(inits[g])
	}
	for g := 1; g < nG; g++ {
		if strings.Join(inits[g], " ") != strings.Join(inits[0], " ") {
			return "BAD init results differ between callers: " + strings.Join(inits[0], " ") + " vs " + strings.Join(inits[g], " ")
		}
	}
	if bad := siblingAnnotations(seed); bad != "" {
		return bad
	}
	return fmt.Sprintf("ONCE chains=%d singleton=1 static_once init_same", nChains)
}

// siblingAnnotations: Singleton(p) and Memoize(p) are annotated copies of one provider.  Whichever
// is bound first, the Singleton copy runs once whatever its input and the Memoize copy once per
// input: binding one collection must not change what the other does.
func siblingAnnotations(seed int64) string {
	var calls int32
	base := nject.Provide("render", func(a T1) T5 {
		atomic.AddInt32(&calls, 1)
		return T5{P: a.S}
	})
	run := func(annotated any, k int) (int, string) {
		var invoke func() T5
		err := nject.Sequence(fmt.Sprintf("sib%d", k), T1{S: k}, annotated, func(t T5) T5 { return t }).Bind(&invoke, nil)
		if err != nil {
			return 0, "BAD sibling bind: " + sanitize(err.Error())
		}
		return invoke().P, ""
	}
	var single, memo [2]int
	for phase := 0; phase < 2; phase++ {
		for k := 1; k <= 2; k++ {
			var bad string
			if (phase == 0) == (seed%2 == 0) {
				single[k-1], bad = run(nject.Singleton(base), k)
			} else {
				memo[k-1], bad = run(nject.Memoize(base), k)
			}
			if bad != "" {
				return bad
			}
		}
	}
	if single != [2]int{1, 1} || memo != [2]int{1, 2} {
		return fmt.Sprintf("BAD sibling annotations: Singleton copy gave %v (want [1 1]), Memoize copy gave %v (want [1 2])", single, memo)
	}
	return ""
}

// ---------- isolation (C08) ----------
// Pure providers: every output is a function of the inputs, so the result of an invocation
// must not depend on what runs concurrently.
func genIsolation(r *rng) string {
	return fmt.Sprintf("S %d %d %d %d", r.next()%1000000, 2+r.intn(10), 20+r.intn(150), r.intn(4))
}

func runIsolation(line string) string {
	f := strings.Fields(line)
	seed, nG, nInv, shape := int64(atoi(f[1])), atoi(f[2]), atoi(f[3]), atoi(f[4])
	defer perturb(seed)()
	mix := func(xs ...int) int {
		h := 17
		for _, x := range xs {
			h = (h*31 + x) % 1000003
		}
		return h
	}
	var invoke func(T0, T1) (T4, error)
	var staticCalls int32
	providers := []any{
		nject.Cacheable(func() T7 {
			atomic.AddInt32(&staticCalls, 1)
			time.Sleep(200 * time.Microsecond) // a slow static provider widens the first-invocation window
			return T7{9, 9}
		}),
		func(a T0) T2 { return T2{2, mix(a.S, 2)} },
		func(inner func(T3) (T4, error), a T0, b T2) (T4, error) {
			// calls inner twice with different arguments; returns the second result
			inner(T3{3, mix(a.S, b.S, 1)})
			runtime.Gosched()
			return inner(T3{3, mix(a.S, b.S, 2)})
		},
		func(c T3, b T1) (nject.TerminalError, T5) {
			if (c.S+b.S)%11 == 0 {
				return errVal{5, mix(c.S, b.S)}, T5{}
			}
			return nil, T5{5, mix(c.S, b.S)}
		},
	}
	switch shape {
	case 1:
		providers = append(providers, nject.Parallel(func(inner func(T6) T4, d T5) T4 {
			var wg sync.WaitGroup
			var r1, r2 T4
			wg.Add(2)
			go func() { defer wg.Done(); r1 = inner(T6{6, mix(d.S, 1)}) }()
			go func() { defer wg.Done(); r2 = inner(T6{6, mix(d.S, 2)}) }()
			wg.Wait()
			return T4{4, mix(r1.S, r2.S)}
		}))
	case 2:
		providers = append(providers, func(inner func(T6) T4, d T5) T4 {
			r := T4{}
			for i := 0; i < 3; i++ {
				r = inner(T6{6, mix(d.S, r.S, i)})
			}
			return r
		})
	default:
		providers = append(providers, func(d T5) T6 { return T6{6, mix(d.S, 6)} })
	}
	providers = append(providers, func(e T6, s T7, b T2) T4 { runtime.Gosched(); return T4{4, mix(e.S, s.S, b.S)} })
	if err := nject.Sequence("iso", providers...).Bind(&invoke, nil); err != nil {
		return "BAD bind: " + sanitize(err.Error())
	}
	// the reference comes from a twin chain, so that the first invocations of [invoke] race on its
	// lazy static initialisation
	var reference func(T0, T1) (T4, error)
	if err := nject.Sequence("iso-ref", providers...).Bind(&reference, nil); err != nil {
		return "BAD bind: " + sanitize(err.Error())
	}
	show := func(t T4, e error) string {
		if e != nil {
			return "e" + e.Error()
		}
		return fmt.Sprintf("%d", t.S)
	}
	// sequential reference
	expected := make([]string, nInv)
	for i := 0; i < nInv; i++ {
		expected[i] = show(reference(T0{1, i}, T1{1, 3 * i}))
	}
	var wg sync.WaitGroup
	var bad atomic.Value
	start := make(chan struct{})
	rnd := rand.New(rand.NewSource(seed))
	orders := make([][]int, nG)
	for g := range orders {
		orders[g] = rnd.Perm(nInv)
	}
	for g := 0; g < nG; g++ {
		g := g
		wg.Add(1)
		go func() {
			defer wg.Done()
			defer func() {
				if p := recover(); p != nil {
					bad.Store("panic: " + fmt.Sprint(p))
				}
			}()
			<-start
			for _, i := range orders[g] {
				got := show(invoke(T0{1, i}, T1{1, 3 * i}))
				if got != expected[i] {
					bad.Store(fmt.Sprintf("invocation %d returned %s concurrently, %s alone", i, got, expected[i]))
					return
				}
			}
		}()
	}
	close(start)
	wg.Wait()
	if b := bad.Load(); b != nil {
		return "BAD " + sanitize(b.(string))
	}
	if staticCalls != 2 { // once per bound chain: the chain under test and its twin
		return fmt.Sprintf("BAD static injector ran %d times for two chains", staticCalls)
	}
	return "ISOLATED same_as_alone static_once"
}

// ---------- debug lock (C12) ----------
func genDebugLock(r *rng) string {
	nG := 2 + r.intn(10)
	return fmt.Sprintf("D %d %d %d", r.next()%1000000, nG, r.intn(1<<uint(nG)))
}

func runDebugLock(line string) string {
	f := strings.Fields(line)
	seed, nG, fails := int64(atoi(f[1])), atoi(f[2]), atoi(f[3])
	defer perturb(seed)()
	type result struct {
		err      error
		detailed string
	}
	res := make([]result, nG)
	invs := make([]func() T1, nG)
	var wg sync.WaitGroup
	start := make(chan struct{})
	for g := 0; g < nG; g++ {
		g := g
		wg.Add(1)
		go func() {
			defer wg.Done()
			<-start
			for round := 0; round < 3; round++ {
				name := fmt.Sprintf("dl%dx%d", g, round)
				items := []any{func() T0 { return T0{1, g} }, func(a T0) T1 { return T1{1, a.S} }}
				var inv func() T1
				if fails&(1<<uint(g)) != 0 {
					// needs a type nobody provides
					items = append(items, func(t T1, missing T7) T1 { return t })
				} else {
					items = append(items, func(t T1) T1 { return t })
				}
				err := nject.Sequence(name, items...).Bind(&inv, nil)
				res[g].err = err
				if err != nil {
					if (g+round)%2 == 1 {
						// callers add context with %w: the plain text is then the wrapped error's text
						err = fmt.Errorf("while binding %s: %w", name, err)
					}
					res[g].detailed = nject.DetailedError(err)
					if !strings.HasPrefix(res[g].detailed, err.Error()) {
						res[g].detailed = "NOPREFIX"
					}
					// cross-talk: the captured trace must only talk about this Bind's collection
					for og := 0; og < nG; og++ {
						if og != g && strings.Contains(res[g].detailed, fmt.Sprintf("dl%dx", og)) {
							res[g].detailed = fmt.Sprintf("CROSSTALK dl%d in the details of dl%d", og, g)
						}
					}
				} else {
					invs[g] = inv
				}
			}
		}()
	}
	close(start)
	done := make(chan struct{})
	go func() { wg.Wait(); close(done) }()
	select {
	case <-done:
	case <-time.After(20 * time.Second):
		return "BAD deadlock: concurrent Binds did not return"
	}
	// chains bound while others were failing work (invoked after the concurrent phase: an
	// invocation logs while the global debug flag is set, which is outside the statement)
	for g, inv := range invs {
		if inv != nil {
			if v := inv(); v.S != g {
				res[g].detailed = "WRONGVALUE"
			}
		}
	}
	nFail := 0
	for g := 0; g < nG; g++ {
		want := fails&(1<<uint(g)) != 0
		if (res[g].err != nil) != want {
			return fmt.Sprintf("BAD bind %d: error=%v expected failure=%v", g, res[g].err, want)
		}
		if want {
			nFail++
			switch {
			case res[g].detailed == "NOPREFIX":
				return "BAD DetailedError does not start with the plain error text"
			case strings.HasPrefix(res[g].detailed, "CROSSTALK"):
				return "BAD " + res[g].detailed
			}
		} else if res[g].detailed == "WRONGVALUE" {
			return "BAD a chain bound concurrently returned a foreign value"
		}
	}
	return fmt.Sprintf("DEBUGLOCK binds=%d failing=%d all_returned prefix_ok no_crosstalk", nG, nFail)
}

var _ = reflect.TypeOf
