package main

import (
	"fmt"
	"strings"
)

// Differential streams: a case is a pair of chains, the observation the pair of observations.
//
//	PAIR <kind> <arg> ## <K base> ## <K variant>
//
// desired (C14): variant = base with the Desired / auto-desired provider <arg> marked Required.
// prune   (C16): variant = base with every provider the real Bind excluded deleted.
func init() {
	streams["desired"] = &stream{gen: genDesired, run: runPair}
	streams["prune"] = &stream{gen: genPrune, run: runPair}
}

func runPair(line string) string {
	parts := strings.Split(line, " ## ")
	if len(parts) != 3 {
		panic("bad PAIR case")
	}
	return runChain(parts[1]) + " ## " + runChain(parts[2])
}

func downOutsEmpty(p *cprovider) bool {
	switch p.shape {
	case 2:
		if containsInt(p.outs, tcOf(pTerminal)) && p.annots&(aCacheable|aMustCache|aMemoize|aSingleton) != 0 {
			return false // may be hoisted: a static fallible injector outputs error
		}
		for _, t := range p.outs {
			if t != tcOf(pTerminal) && t != tcOf(pUnused) {
				return false
			}
		}
		return true
	case 3:
		for _, t := range p.innerIns {
			if t != tcOf(pUnused) {
				return false
			}
		}
		return true
	}
	return false
}

func genDesired(r *rng) string {
	for {
		c := genChain(r, chainOpts{})
		var cands []int
		for i, p := range c.provs {
			if i == len(c.provs)-1 || p.cluster != 0 || p.annots&(aShun|aRequired) != 0 || p.shape == 1 {
				continue
			}
			if p.annots&aDesired != 0 || downOutsEmpty(p) {
				cands = append(cands, i)
			}
		}
		if len(cands) == 0 {
			// make one Desired
			var free []int
			for i, p := range c.provs {
				if i != len(c.provs)-1 && p.cluster == 0 && p.annots&(aShun|aRequired|aNonFinal) == 0 && p.shape != 1 {
					free = append(free, i)
				}
			}
			if len(free) == 0 {
				continue
			}
			i := free[r.intn(len(free))]
			c.provs[i].annots |= aDesired
			cands = []int{i}
		}
		i := cands[r.intn(len(cands))]
		base := c.encode()
		v := parseChain(base)
		v.provs[i].annots |= aRequired
		return fmt.Sprintf("PAIR desired %d ## %s ## %s", c.provs[i].pid, base, v.encode())
	}
}

func genPrune(r *rng) string {
	c := genChain(r, chainOpts{noStatic: true})
	for _, p := range c.provs {
		p.cluster = 0
		p.annots &^= aReorder | aCacheable | aMustCache | aMemoize | aSingleton
	}
	return prunePair(c.encode())
}

// the chain paired with itself minus every provider the real Bind excluded
func prunePair(base string) string {
	obs := runChain(base)
	v := parseChain(base)
	if strings.HasPrefix(obs, "BIND ok") {
		excluded := map[int]bool{}
		for _, sec := range strings.Split(obs, " ; ") {
			if !strings.HasPrefix(sec, "ORDER") {
				continue
			}
			for _, tok := range strings.Fields(sec)[1:] {
				f := strings.Split(tok, ":")
				if len(f) == 4 && f[3] == "0" {
					excluded[atoi(f[0])] = true
				}
			}
		}
		var kept []*cprovider
		for _, p := range v.provs {
			if !excluded[p.pid] {
				kept = append(kept, p)
			}
		}
		v.provs = kept
	}
	return fmt.Sprintf("PAIR prune 0 ## %s ## %s", base, v.encode())
}

// displace (C17): base = a chain; variant = the same chain with one plain injector marked Reorder
// and listed at another position.
func init() {
	streams["displace"] = &stream{gen: genDisplace, run: runPair}
	streams["reorder"] = &stream{gen: func(r *rng) string { return genReorderChain(r).encode() }, run: runChain}
	streams["reorderwrap"] = &stream{gen: func(r *rng) string { return genReorderWrapChain(r).encode() }, run: runChain}
}

// genReorderChain: ordinary chains with Reorder sprinkled on injectors (and sometimes wrappers)
func genReorderChain(r *rng) *ccase {
	c := genChain(r, chainOpts{})
	for i, p := range c.provs {
		if i == len(c.provs)-1 || p.shape == 1 {
			continue
		}
		if r.chance(1, 4) && (p.shape == 2 || r.chance(1, 3)) {
			p.annots |= aReorder
		}
	}
	for _, p := range c.provs {
		p.cluster = 0
	}
	return c
}

// chains without static providers in which most wrappers and fallible injectors are Reorder'd and
// Required: the topological sort is free to place them around the invoke function
func genReorderWrapChain(r *rng) *ccase {
	c := genChain(r, chainOpts{noStatic: true, moreWrap: true, moreFall: r.chance(1, 2)})
	for i, p := range c.provs {
		if i == len(c.provs)-1 || p.shape == 1 {
			continue
		}
		if r.chance(3, 4) {
			p.annots |= aReorder
			if r.chance(2, 3) {
				p.annots |= aRequired
			}
		}
	}
	for _, p := range c.provs {
		p.cluster = 0
	}
	return c
}

func genDisplace(r *rng) string {
	for {
		c := genChain(r, chainOpts{noSelect: true, noStatic: r.chance(2, 3)})
		if len(c.provs) < 3 {
			continue
		}
		for _, p := range c.provs {
			p.cluster = 0
			p.annots &^= aNonFinal
			// behaviour must not depend on the global serial, which displacement shifts:
			// nothing fails, every wrapper calls inner() exactly once
			p.failmask = 0
			p.calls = nil
		}
		// candidates: plain injectors (no TerminalError), not last
		var cands []int
		for i, p := range c.provs[:len(c.provs)-1] {
			// the displaced injector may be Cacheable (static in the base chain, per invocation once
			// it is marked Reorder); MustCache / Memoize / Singleton contradict Reorder
			if p.shape == 2 && !containsInt(p.outs, tcOf(pTerminal)) && p.annots&(aMustCache|aMemoize|aSingleton) == 0 {
				cands = append(cands, i)
			}
		}
		if len(cands) == 0 {
			continue
		}
		i := cands[r.intn(len(cands))]
		base := c.encode()
		v := parseChain(base)
		moved := v.provs[i]
		moved.annots |= aReorder
		rest := append(append([]*cprovider{}, v.provs[:i]...), v.provs[i+1:]...)
		// any position except the last (the final function stays last) and the original one
		j := r.intn(len(rest))
		if j == i {
			j = (j + 1) % len(rest)
		}
		v.provs = append(append(append([]*cprovider{}, rest[:j]...), moved), rest[j:]...)
		return fmt.Sprintf("PAIR displace %d ## %s ## %s", moved.pid, base, v.encode())
	}
}

// debugging (C12): chains in which every provider has a unique name, some provider takes
// *Debugging and Reorder is sprinkled; the observation carries what Debugging.NamesIncluded said.
// dbgneutral (C12): base without any *Debugging parameter, variant with one added.
// regroup (C13): the same provider list built through nested Sequences / Append / collection-
// level annotations.  unused (C13): variant = base with an Unused parameter added.
func init() {
	streams["debugging"] = &stream{gen: func(r *rng) string { return genDebugging(r).encode() }, run: runChain}
	streams["dbgneutral"] = &stream{gen: genDbgNeutral, run: runPair}
	streams["regroup"] = &stream{gen: func(r *rng) string {
		c := genChain(r, chainOpts{})
		if r.chance(1, 3) {
			addEdits(r, c) // named edits must survive every re-spelling of the list
		}
		c.regroup = 1 + r.intn(1000000)
		return c.encode()
	}, run: runChain}
	streams["unused"] = &stream{gen: genUnusedPair, run: runPair}
}

func stripType(l []int, t int) []int {
	var out []int
	for _, x := range l {
		if x != t {
			out = append(out, x)
		}
	}
	return out
}

func genDebugging(r *rng) *ccase {
	c := genReorderChain(r)
	dbg := tcOf(pDebug)
	for _, p := range c.provs {
		p.origin = 100 + p.pid
		p.ins = stripType(p.ins, dbg)
	}
	// one to two providers ask for *Debugging
	for k := 1 + r.intn(2); k > 0; k-- {
		p := c.provs[r.intn(len(c.provs))]
		if p.shape != 1 {
			p.ins = append(append([]int{}, p.ins...), dbg)
		}
	}
	last := c.provs[len(c.provs)-1]
	if last.shape == 2 && r.chance(1, 2) && !containsInt(last.ins, dbg) {
		last.ins = append(append([]int{}, last.ins...), dbg)
	}
	return c
}

func genDbgNeutral(r *rng) string {
	for {
		c := genChain(r, chainOpts{})
		dbg := tcOf(pDebug)
		var cands []int
		for i, p := range c.provs {
			p.ins = stripType(p.ins, dbg)
			if p.shape != 1 {
				cands = append(cands, i)
			}
		}
		if len(cands) == 0 {
			continue
		}
		base := c.encode()
		v := parseChain(base)
		i := cands[r.intn(len(cands))]
		v.provs[i].ins = append(append([]int{}, v.provs[i].ins...), dbg)
		return fmt.Sprintf("PAIR dbgneutral %d ## %s ## %s", v.provs[i].pid, base, v.encode())
	}
}

func genUnusedPair(r *rng) string {
	for {
		c := genChain(r, chainOpts{})
		un := tcOf(pUnused)
		for _, p := range c.provs {
			p.ins = stripType(p.ins, un)
			p.outs = stripType(p.outs, un)
			p.innerOuts = stripType(p.innerOuts, un)
		}
		c.invIns, c.initIns = stripType(c.invIns, un), stripType(c.initIns, un)
		base := c.encode()
		v := parseChain(base)
		where := r.intn(4)
		switch where {
		case 0: // final function
			// the final function is the last provider not marked NonFinal
			var last *cprovider
			for _, p := range v.provs {
				if p.annots&aNonFinal == 0 {
					last = p
				}
			}
			if last == nil || last.shape != 2 {
				continue
			}
			last.ins = append(append([]int{}, last.ins...), un)
		case 1: // a Required provider
			var req []int
			for i, p := range v.provs {
				if p.annots&aRequired != 0 && p.shape != 1 {
					req = append(req, i)
				}
			}
			if len(req) == 0 {
				continue
			}
			p := v.provs[req[r.intn(len(req))]]
			p.ins = append(append([]int{}, p.ins...), un)
		case 2: // invoke
			v.invIns = append(append([]int{}, v.invIns...), un)
		default: // init
			if !v.hasInit {
				continue
			}
			v.initIns = append(append([]int{}, v.initIns...), un)
		}
		return fmt.Sprintf("PAIR unused %d ## %s ## %s", where, base, v.encode())
	}
}

// refltwin (C20): a chain of plain functions, paired with the same chain in which a random
// subset of the function providers is supplied through the Reflective / ReflectiveWrapper interfaces.
func init() {
	streams["refltwin"] = &stream{gen: genReflTwin, run: runPair}
}

func genReflTwin(r *rng) string {
	c := genChain(r, chainOpts{moreWrap: r.chance(1, 3)})
	for _, p := range c.provs {
		p.annots &^= aReflective
	}
	base := c.encode()
	v := parseChain(base)
	n := 0
	for _, p := range v.provs {
		if p.shape != 1 && r.chance(1, 2) {
			p.annots |= aReflective
			n++
		}
	}
	return fmt.Sprintf("PAIR refltwin %d ## %s ## %s", n, base, v.encode())
}

// cacheperm (C06): Cacheable is only a permission.  base: a chain with a provider marked
// Cacheable (nothing stronger); variant: the same chain without that mark.  A chain that binds
// without the mark binds with it, with the same providers included.
func init() {
	streams["cacheperm"] = &stream{gen: genCachePerm, run: runPair}
}

func genCachePerm(r *rng) string {
	for {
		c := genChain(r, chainOpts{moreStatic: r.chance(1, 2)})
		if r.chance(1, 2) {
			ifaceSubst(r, c)
		}
		strong := aMustCache | aMemoize | aSingleton | aNotCacheable
		var cands, ifaceCands []int
		for i, p := range c.provs {
			if p.shape != 2 || p.annots&strong != 0 || len(p.outs) == 0 || containsInt(p.outs, tcOf(pTerminal)) || p.hasMC {
				continue // hoisting a fallible injector changes who has to take its error: by design
			}
			cands = append(cands, i)
			for _, t := range p.ins {
				if pt, ok := tcToPool[t]; ok && pt.iface && t != tcOf(pError) {
					ifaceCands = append(ifaceCands, i)
					break
				}
			}
		}
		if len(ifaceCands) > 0 && r.chance(2, 3) {
			cands = ifaceCands
		}
		if len(cands) == 0 {
			continue
		}
		i := cands[r.intn(len(cands))]
		c.provs[i].annots |= aCacheable
		base := c.encode()
		v := parseChain(base)
		v.provs[i].annots &^= aCacheable
		return fmt.Sprintf("PAIR cacheperm %d ## %s ## %s", v.provs[i].pid, base, v.encode())
	}
}
