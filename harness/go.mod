module verif/harness

go 1.18

require github.com/muir/nject/v2 v2.0.0

require (
	github.com/muir/reflectutils v0.11.0 // indirect
	github.com/pkg/errors v0.9.1 // indirect
)

replace github.com/muir/nject/v2 => /repo
