// Command harness drives the real nject (from /repo, via the replace directive in go.mod)
// on generated or replayed cases and prints canonical observations, one line per case.
//
//	harness -stream edits -seed 1 -n 500 -cases c.txt -obs o.txt
//	harness -stream edits -replay c.txt -obs o.txt
//
// Every stream is a pair (gen, run): gen draws a case line from the PRNG, run parses a case
// line and executes it against nject.  Replay and generation therefore share one code path.
package main

import (
	"bufio"
	"flag"
	"fmt"
	"os"
	"runtime/debug"
	"strings"
	"time"
)

type stream struct {
	gen func(r *rng) string
	run func(line string) string
	// timeout per case
	timeout time.Duration
}

var streams = map[string]*stream{}

func main() {
	name := flag.String("stream", "", "stream name")
	seed := flag.Uint64("seed", 1, "PRNG seed")
	n := flag.Int("n", 100, "number of cases to generate")
	casesPath := flag.String("cases", "", "file to write generated cases to")
	obsPath := flag.String("obs", "", "file to write observations to (appended when -skip>0)")
	replay := flag.String("replay", "", "replay cases from this file instead of generating")
	skip := flag.Int("skip", 0, "skip the first k cases (already observed)")
	flag.Parse()
	st, ok := streams[*name]
	if !ok {
		fmt.Fprintf(os.Stderr, "unknown stream %q\n", *name)
		os.Exit(2)
	}
	var cases []string
	if *replay != "" {
		f, err := os.Open(*replay)
		if err != nil {
			fmt.Fprintln(os.Stderr, err)
			os.Exit(2)
		}
		sc := bufio.NewScanner(f)
		sc.Buffer(make([]byte, 1<<20), 1<<26)
		for sc.Scan() {
			l := strings.TrimSpace(sc.Text())
			if l != "" && !strings.HasPrefix(l, "#") {
				cases = append(cases, l)
			}
		}
		f.Close()
	} else {
		r := newRng(*seed)
		for i := 0; i < *n; i++ {
			cases = append(cases, st.gen(r.fork()))
		}
		if *casesPath != "" && *skip == 0 {
			if err := os.WriteFile(*casesPath, []byte(strings.Join(cases, "\n")+"\n"), 0o644); err != nil {
				fmt.Fprintln(os.Stderr, err)
				os.Exit(2)
			}
		}
	}
	flags := os.O_CREATE | os.O_WRONLY | os.O_TRUNC
	if *skip > 0 {
		flags = os.O_CREATE | os.O_WRONLY | os.O_APPEND
	}
	out := os.Stdout
	if *obsPath != "" {
		f, err := os.OpenFile(*obsPath, flags, 0o644)
		if err != nil {
			fmt.Fprintln(os.Stderr, err)
			os.Exit(2)
		}
		out = f
	}
	w := bufio.NewWriter(out)
	to := st.timeout
	if to == 0 {
		to = 10 * time.Second
	}
	for i := *skip; i < len(cases); i++ {
		res := make(chan string, 1)
		line := cases[i]
		go func() {
			defer func() {
				if p := recover(); p != nil {
					if os.Getenv("VERIF_STACK") != "" {
						debug.PrintStack()
					}
					res <- "PANIC " + sanitize(fmt.Sprint(p))
				}
			}()
			res <- st.run(line)
		}()
		select {
		case o := <-res:
			fmt.Fprintln(w, o)
			// the race detector (halt_on_error) or a hang ends the process: nothing observed so far may be lost
			w.Flush()
		case <-time.After(to):
			// a hung Bind holds nject's global debug read-lock: this process is unusable now
			fmt.Fprintln(w, "HANG")
			w.Flush()
			out.Close()
			os.Exit(3)
		}
	}
	w.Flush()
	out.Close()
}

func sanitize(s string) string {
	s = strings.ReplaceAll(s, "\n", " ")
	if len(s) > 200 {
		s = s[:200]
	}
	return s
}
