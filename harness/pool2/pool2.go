// Package pool2 holds pool types that live in a different package than the main pool, so that
// the same-package component of nject's interface matching score is exercised.
package pool2

// U0 implements main.I0 (method M0) from a foreign package.
type U0 struct{ P, S int }

func (U0) M0()               {}
func (u U0) Tag() (int, int) { return u.P, u.S }

// U1 implements main.I2 and J0.
type U1 struct{ P, S int }

func (U1) M2()               {}
func (U1) M0()               {}
func (u U1) Tag() (int, int) { return u.P, u.S }

// J0 is an interface in the foreign package.
type J0 interface{ M0() }
