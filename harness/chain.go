package main

import (
	"fmt"
	"reflect"
	"strconv"
	"strings"
	"sync"

	"github.com/muir/nject/v2"
)

// Stream "chain": whole provider chains through the real Bind/init/invoke.
//
// Case line (all integers, '|' separates sections; type codes are nject's own):
//
//	K <type table> | nP provider* | invoke: nIns ins.. nOuts outs.. | init: present nIns ins.. nOuts outs.. | nSteps step..
//	provider = pid origin rep bef aft shape annots cluster nLoose t.. mc co nSA t.. failmask nCalls c.. passthru
//	shape    = 1 t | 2 nIns t.. nOuts t.. | 3 nIns t.. nInnerIns t.. nInnerOuts t.. nOuts t..
//	mc, co   = -1 (no annotation) | n t..
//	step     = 0 init | 1 invoke
//
// Observation: "BIND err <class>" or
//
//	BIND ok ; ORDER pid:class:group:include.. ; RMAP pid:d<t>><src>..:u<t>><src>.. ; RES i(..) x(..) ; LOG events..
const (
	aReflective = 1 << iota
	aNonFinal
	aCacheable
	aMustCache
	aRequired
	aMemoize
	aReorder
	aDesired
	aShun
	aNotCacheable
	aSingleton
	aParallel
)

const (
	pidDebug     = 90
	pidInit      = 91
	pidInvoke    = 92
	pidUnusedIn  = 93
	pidUnusedRet = 94
)

type cprovider struct {
	pid, origin, rep, bef, aft int
	shape                      int // 1 literal, 2 func, 3 wrapper
	lit                        int
	ins, outs                  []int
	innerIns, innerOuts        []int
	annots                     int
	cluster                    int
	loose                      []int
	mc, co                     []int // nil = not annotated
	hasMC, hasCO               bool
	sa                         []int
	failmask                   int
	calls                      []int
	passthru                   bool
}

type ccase struct {
	provs             []*cprovider
	invIns, invOuts   []int
	hasInit           bool
	initIns, initOuts []int
	steps             []int
	invKind, initKind int // 0 pointer to func, 1 plain func, 2 nil, 3 pointer to a non-func
	regroup           int // != 0: build the same list through nested Sequences / Append / collection-level annotations
}

func ints(l []int) string {
	s := strconv.Itoa(len(l))
	for _, x := range l {
		s += " " + strconv.Itoa(x)
	}
	return s
}

func optInts(has bool, l []int) string {
	if !has {
		return "-1"
	}
	return ints(l)
}

func (p *cprovider) encode() string {
	var sh string
	switch p.shape {
	case 1:
		sh = fmt.Sprintf("1 %d", p.lit)
	case 2:
		sh = fmt.Sprintf("2 %s %s", ints(p.ins), ints(p.outs))
	case 3:
		sh = fmt.Sprintf("3 %s %s %s %s", ints(p.ins), ints(p.innerIns), ints(p.innerOuts), ints(p.outs))
	case 5:
		sh = fmt.Sprintf("5 %s %s", ints(p.ins), ints(p.outs))
	}
	pt := 0
	if p.passthru {
		pt = 1
	}
	return fmt.Sprintf("%d %d %d %d %d %s %d %d %s %s %s %s %d %s %d", p.pid, p.origin, p.rep, p.bef, p.aft, sh,
		p.annots, p.cluster, ints(p.loose), optInts(p.hasMC, p.mc), optInts(p.hasCO, p.co), ints(p.sa),
		p.failmask, ints(p.calls), pt)
}

func (c *ccase) encode() string {
	var sb strings.Builder
	sb.WriteString("K ")
	sb.WriteString(typeTable())
	fmt.Fprintf(&sb, " | %d", len(c.provs))
	for _, p := range c.provs {
		sb.WriteString(" " + p.encode())
	}
	fmt.Fprintf(&sb, " | %s %s", ints(c.invIns), ints(c.invOuts))
	hi := 0
	if c.hasInit {
		hi = 1
	}
	fmt.Fprintf(&sb, " | %d %s %s", hi, ints(c.initIns), ints(c.initOuts))
	fmt.Fprintf(&sb, " | %s", ints(c.steps))
	if c.invKind != 0 || c.initKind != 0 || c.regroup != 0 {
		fmt.Fprintf(&sb, " | %d %d %d", c.invKind, c.initKind, c.regroup)
	}
	return sb.String()
}

type tokReader struct {
	toks []string
	pos  int
}

func (r *tokReader) next() int {
	for r.toks[r.pos] == "|" {
		r.pos++
	}
	v := atoi(r.toks[r.pos])
	r.pos++
	return v
}

func (r *tokReader) more() bool {
	for r.pos < len(r.toks) && r.toks[r.pos] == "|" {
		r.pos++
	}
	return r.pos < len(r.toks)
}

func (r *tokReader) counted() []int {
	n := r.next()
	l := make([]int, 0, n)
	for i := 0; i < n; i++ {
		l = append(l, r.next())
	}
	return l
}

func (r *tokReader) optCounted() (bool, []int) {
	n := r.next()
	if n < 0 {
		return false, nil
	}
	l := make([]int, 0, n)
	for i := 0; i < n; i++ {
		l = append(l, r.next())
	}
	return true, l
}

// parseChain parses a K line.  The type table is skipped: the harness uses its own pool (the
// table is for the model), but the codes must agree with this process.
func parseChain(line string) *ccase {
	r := &tokReader{toks: strings.Fields(line)[1:]}
	for i := 0; i < 5; i++ {
		r.next()
	}
	nT := r.next()
	for i := 0; i < nT; i++ {
		tc := r.next()
		if _, ok := tcToPool[tc]; !ok {
			panic(fmt.Sprintf("case uses type code %d unknown to this harness build", tc))
		}
		for k := 0; k < 6; k++ {
			r.next()
		}
		r.counted()
		r.next()
	}
	c := &ccase{}
	nP := r.next()
	for i := 0; i < nP; i++ {
		p := &cprovider{}
		p.pid, p.origin, p.rep, p.bef, p.aft = r.next(), r.next(), r.next(), r.next(), r.next()
		p.shape = r.next()
		switch p.shape {
		case 1:
			p.lit = r.next()
		case 2, 5:
			p.ins, p.outs = r.counted(), r.counted()
		case 3:
			p.ins, p.innerIns, p.innerOuts, p.outs = r.counted(), r.counted(), r.counted(), r.counted()
		default:
			panic("bad shape")
		}
		p.annots, p.cluster = r.next(), r.next()
		p.loose = r.counted()
		p.hasMC, p.mc = r.optCounted()
		p.hasCO, p.co = r.optCounted()
		p.sa = r.counted()
		p.failmask = r.next()
		p.calls = r.counted()
		p.passthru = r.next() != 0
		c.provs = append(c.provs, p)
	}
	c.invIns, c.invOuts = r.counted(), r.counted()
	c.hasInit = r.next() != 0
	c.initIns, c.initOuts = r.counted(), r.counted()
	c.steps = r.counted()
	if r.more() {
		c.invKind = r.next()
		c.initKind = r.next()
	}
	if r.more() {
		c.regroup = r.next()
	}
	return c
}

// ---------- running a case ----------

type runner struct {
	mu  sync.Mutex
	cnt int
	log []string
	dbg string // what the first *Debugging value seen by a provider says
	// the listed-last function when it is the final function for certain: as a Reflective it returns
	// values built with reflect.ValueOf (dynamic types, not the interface types Out() declares)
	finalPid int
}

// seeDebugging records the Debugging value handed to a provider (once per case).
func (rn *runner) seeDebugging(in []reflect.Value) {
	if rn.dbg != "" {
		return
	}
	for _, v := range in {
		if !v.IsValid() || v.Kind() != reflect.Ptr || v.IsNil() {
			continue
		}
		d, ok := v.Interface().(*nject.Debugging)
		if !ok {
			continue
		}
		names := make([]string, len(d.NamesIncluded))
		for i, n := range d.NamesIncluded {
			names[i] = strings.ReplaceAll(n, " ", "_")
		}
		inc, exc := 0, 0
		for _, l := range d.IncludeExclude {
			switch {
			case strings.HasPrefix(l, "INCLUDED:"):
				inc++
			case strings.HasPrefix(l, "EXCLUDED:"):
				exc++
			}
		}
		rn.dbg = fmt.Sprintf("DBG %s inc=%d exc=%d n=%d", strings.Join(names, ","), inc, exc, len(d.Included))
	}
}

func (rn *runner) tick() int {
	rn.cnt++
	return rn.cnt
}

func (rn *runner) logf(format string, a ...any) {
	rn.log = append(rn.log, fmt.Sprintf(format, a...))
}

func rtypes(tcs []int) []reflect.Type {
	out := make([]reflect.Type, len(tcs))
	for i, tc := range tcs {
		out[i] = tcToPool[tc].t
	}
	return out
}

// mkval builds the value a script produces for a result of type tc.
func mkval(tc int, failing bool, pid, s int) reflect.Value {
	pt := tcToPool[tc]
	switch {
	case pt == pool[pTerminal]:
		if failing {
			return reflect.ValueOf(errVal{pid, s}).Convert(pt.t)
		}
		return reflect.Zero(pt.t)
	case pt == pool[pError]:
		return reflect.ValueOf(errVal{pid, s}).Convert(pt.t)
	case pt == pool[pUnused]:
		return reflect.ValueOf(nject.Unused{})
	case pt == pool[pDebug]:
		return reflect.Zero(pt.t)
	case pt.iface:
		return pool[pt.prod].mk(pid, s).Convert(pt.t)
	}
	return pt.mk(pid, s)
}

// undeclared marks the values inner() handed back whose type is not the type that the wrapper
// declared for that result (a Go function is always handed the declared types: empty on /repo).
func undeclared(r []reflect.Value, tcs []int) string {
	s := ""
	for i, v := range r {
		if i < len(tcs) && v.IsValid() && v.Type() != tcToPool[tcs[i]].t {
			s += fmt.Sprintf("!%d", i)
		}
	}
	return s
}

func (rn *runner) makeProvider(p *cprovider) any {
	var fn any
	switch p.shape {
	case 5:
		// a typed nil function value
		fn = reflect.Zero(reflect.FuncOf(rtypes(p.ins), rtypes(p.outs), false)).Interface()
	case 1:
		fn = mkval(p.lit, false, p.pid, 0).Interface()
	case 2:
		body := func(in []reflect.Value) []reflect.Value {
			rn.mu.Lock()
			defer rn.mu.Unlock()
			rn.seeDebugging(in)
			s := rn.tick()
			failing := (p.failmask>>(uint(s)%8))&1 == 1
			outs := make([]reflect.Value, len(p.outs))
			for i, tc := range p.outs {
				outs[i] = mkval(tc, failing, p.pid, s)
			}
			rn.logf("C%d%s>%s", p.pid, showVals(in), showVals(outs))
			if p.annots&aReflective != 0 && p.pid == rn.finalPid {
				for i, v := range outs {
					if v.Kind() == reflect.Interface && !v.IsNil() {
						outs[i] = v.Elem()
					}
				}
			}
			return outs
		}
		if p.annots&aReflective != 0 {
			fn = nject.MakeReflective(rtypes(p.ins), rtypes(p.outs), body)
		} else {
			fn = reflect.MakeFunc(reflect.FuncOf(rtypes(p.ins), rtypes(p.outs), false), body).Interface()
		}
	case 3:
		body := func(in []reflect.Value) []reflect.Value {
			rn.mu.Lock()
			rn.seeDebugging(in[1:])
			s0 := rn.tick()
			rn.logf("E%d%s", p.pid, showVals(in[1:]))
			ncalls := 1
			if len(p.calls) > 0 {
				ncalls = p.calls[s0%len(p.calls)]
			}
			rn.mu.Unlock()
			var last []reflect.Value
			for k := 1; k <= ncalls; k++ {
				rn.mu.Lock()
				s := rn.tick()
				iargs := make([]reflect.Value, len(p.innerIns))
				for i, tc := range p.innerIns {
					iargs[i] = mkval(tc, false, p.pid, s)
				}
				rn.logf("I%d.%d%s", p.pid, k, showVals(iargs))
				rn.mu.Unlock()
				var r []reflect.Value
				if p.annots&aReflective != 0 {
					r = in[0].Interface().(func([]reflect.Value) []reflect.Value)(iargs)
				} else {
					r = in[0].Call(iargs)
				}
				rn.mu.Lock()
				rn.logf("J%d.%d%s%s", p.pid, k, showVals(r), undeclared(r, p.innerOuts))
				rn.mu.Unlock()
				last = r
			}
			rn.mu.Lock()
			defer rn.mu.Unlock()
			s := rn.tick()
			rets := make([]reflect.Value, len(p.outs))
			for i, tc := range p.outs {
				rets[i] = mkval(tc, false, p.pid, s)
				if tcToPool[tc] == pool[pError] && s%2 == 0 {
					// a wrapper's own error result is nil on even steps
					rets[i] = reflect.Zero(tcToPool[tc].t)
				}
				if p.passthru && last != nil {
					for j, rt := range p.innerOuts {
						if rt == tc {
							rets[i] = last[j]
							break
						}
					}
				}
			}
			rn.logf("L%d%s", p.pid, showVals(rets))
			if p.annots&aReflective != 0 {
				// a Reflective builds its results with reflect.ValueOf: they carry their dynamic type,
				// not the interface type that Out() declares
				for i, v := range rets {
					if v.Kind() == reflect.Interface {
						rets[i] = v.Elem() // a nil interface becomes the invalid Value, as reflect.ValueOf(nil) is
					}
				}
			}
			return rets
		}
		if p.annots&aReflective != 0 {
			fn = nject.MakeReflectiveWrapper(rtypes(p.ins), rtypes(p.outs), rtypes(p.innerIns), rtypes(p.innerOuts), body)
		} else {
			innerT := reflect.FuncOf(rtypes(p.innerIns), rtypes(p.innerOuts), false)
			fn = reflect.MakeFunc(reflect.FuncOf(append([]reflect.Type{innerT}, rtypes(p.ins)...), rtypes(p.outs), false), body).Interface()
		}
	}
	return fn
}

func annotate(p *cprovider, x any) any {
	// always turn the function into a provider here so that its nject id is known
	x = nject.Provide(nameStr(p.origin), x)
	a := p.annots
	if a&aNonFinal != 0 {
		x = nject.NonFinal(x)
	}
	if a&aCacheable != 0 {
		x = nject.Cacheable(x)
	}
	if a&aMustCache != 0 {
		x = nject.MustCache(x)
	}
	if a&aRequired != 0 {
		x = nject.Required(x)
	}
	if a&aMemoize != 0 {
		x = nject.Memoize(x)
	}
	if a&aReorder != 0 {
		x = nject.Reorder(x)
	}
	if a&aDesired != 0 {
		x = nject.Desired(x)
	}
	if a&aShun != 0 {
		x = nject.Shun(x)
	}
	if a&aNotCacheable != 0 {
		x = nject.NotCacheable(x)
	}
	if a&aSingleton != 0 {
		x = nject.Singleton(x)
	}
	if a&aParallel != 0 {
		x = nject.Parallel(x)
	}
	for _, tc := range p.loose {
		x = tcToPool[tc].loose(x)
	}
	if p.hasMC {
		for _, tc := range p.mc {
			x = tcToPool[tc].mustConsume(x)
		}
	}
	if p.hasCO {
		for _, tc := range p.co {
			x = tcToPool[tc].consOpt(x)
		}
	}
	for _, tc := range p.sa {
		x = tcToPool[tc].allowShadow(x)
	}
	if p.rep != 0 {
		x = nject.ReplaceNamed(nameStr(p.rep), x)
	}
	if p.bef != 0 {
		x = nject.InsertBeforeNamed(nameStr(p.bef), x)
	}
	if p.aft != 0 {
		x = nject.InsertAfterNamed(nameStr(p.aft), x)
	}
	return x
}

// buildItems turns the provider list into the arguments of Sequence (clusters grouped).
func (rn *runner) buildItems(c *ccase, idToPid map[int32]int) []any {
	var items []any
	i := 0
	rn.finalPid = 0
	if n := len(c.provs); n > 0 {
		if l := c.provs[n-1]; l.shape == 2 && l.rep == 0 && l.bef == 0 && l.aft == 0 &&
			l.annots&(aNonFinal|aReorder|aMemoize|aSingleton|aCacheable|aMustCache) == 0 && !containsInt(l.outs, tcOf(pTerminal)) {
			rn.finalPid = l.pid
		}
	}
	for i < len(c.provs) {
		p := c.provs[i]
		if c.regroup != 0 && p.cluster == 0 {
			// a run of unclustered providers sharing an annotation: annotate the collection instead
			if j, flag, fn := liftable(c.provs, i, c.regroup+i); j > i+1 {
				var members []any
				for k := i; k < j; k++ {
					q := *c.provs[k]
					q.annots &^= flag
					x := annotate(&q, rn.makeProvider(c.provs[k]))
					for _, id := range nject.VerifIDs(x) {
						idToPid[id] = q.pid
					}
					members = append(members, x)
				}
				items = append(items, fn(nject.Sequence(fmt.Sprintf("lift%d", i), members...)))
				i = j
				continue
			}
		}
		if p.cluster == 0 {
			x := annotate(p, rn.makeProvider(p))
			for _, id := range nject.VerifIDs(x) {
				idToPid[id] = p.pid
			}
			items = append(items, x)
			i++
			continue
		}
		var members []any
		var pids []int
		j := i
		for j < len(c.provs) && c.provs[j].cluster == p.cluster {
			q := c.provs[j]
			members = append(members, annotate(q, rn.makeProvider(q)))
			pids = append(pids, q.pid)
			j++
		}
		cl := nject.Cluster("cl"+strconv.Itoa(p.cluster), members...)
		for k, id := range nject.VerifIDs(cl) {
			if k < len(pids) {
				idToPid[id] = pids[k]
			}
		}
		items = append(items, cl)
		i = j
	}
	return items
}

var observeMu sync.Mutex

func classifyBindErr(msg string) int {
	switch {
	case strings.Contains(msg, "Could not match type"):
		return 1
	case strings.Contains(msg, "required but") || strings.Contains(msg, "is required and excluded"):
		return 2
	case strings.Contains(msg, "wanted but"):
		return 3
	case strings.Contains(msg, "AllowReturnShadowing"):
		return 4
	case strings.Contains(msg, "Type required by init func"):
		return 5
	case strings.Contains(msg, "internal error #1:"):
		return 6
	case strings.Contains(msg, "internal error"):
		return 7
	case strings.Contains(msg, "not in chain") || strings.Contains(msg, "duplicated in chain") || strings.Contains(msg, "can have only one of") || strings.Contains(msg, "refers to itself"):
		return 8
	case strings.Contains(msg, "cannot create useful zero"):
		return 9
	case strings.Contains(msg, "is a nil function"):
		return 1
	case strings.Contains(msg, "not nil"):
		return 1
	}
	return 0
}

func synthPid(f nject.VerifProviderInfo) int {
	switch {
	case f.Class == 9:
		return pidInvoke
	case f.Class == 8:
		return pidInit
	case f.Origin == "Debugging":
		return pidDebug
	case f.Origin == "provide unused":
		return pidUnusedIn
	case f.Origin == "return unused":
		return pidUnusedRet
	}
	return 99
}

func dedupInts(l []int) []int {
	var out []int
	seen := map[int]bool{}
	for _, x := range l {
		if !seen[x] {
			seen[x] = true
			out = append(out, x)
		}
	}
	return out
}

func lookupPair(m [][2]int, k int) int {
	for _, p := range m {
		if p[0] == k {
			return p[1]
		}
	}
	return 0
}

func showPlan(info nject.VerifBindInfo, idToPid map[int32]int) string {
	var sb strings.Builder
	sb.WriteString("ORDER")
	pidOf := func(f nject.VerifProviderInfo) int {
		if pid, ok := idToPid[f.ID]; ok && !f.Synthetic {
			return pid
		}
		return synthPid(f)
	}
	for _, f := range info.Funcs {
		inc := 0
		if f.Include {
			inc = 1
		}
		fmt.Fprintf(&sb, " %d:%d:%d:%d", pidOf(f), f.Class, f.Group, inc)
	}
	sb.WriteString(" ; RMAP")
	for _, f := range info.Funcs {
		if !f.Include {
			continue
		}
		var parts string
		for _, t := range dedupInts(f.Flows[2]) {
			if t == noTypeTC {
				continue
			}
			parts += fmt.Sprintf(":d%d>%d", t, lookupPair(f.DownRmap, t))
		}
		for _, t := range dedupInts(f.Flows[3]) {
			if t == noTypeTC {
				continue
			}
			parts += fmt.Sprintf(":u%d>%d", t, lookupPair(f.UpRmap, t))
		}
		for _, t := range dedupInts(f.Flows[4]) {
			if t == noTypeTC {
				continue
			}
			parts += fmt.Sprintf(":b%d>%d", t, lookupPair(f.BypassRmap, t))
		}
		if parts != "" {
			fmt.Fprintf(&sb, " %d%s", pidOf(f), parts)
		}
	}
	return sb.String()
}

// bindCase builds and binds the chain of a case; returns the error or the callable pieces.
func (rn *runner) bindCase(c *ccase) (err error, plan string, invoke, init reflect.Value) {
	idToPid := map[int32]int{}
	items := rn.buildItems(c, idToPid)
	if c.regroup != 0 {
		items = regroupItems(newRng(uint64(c.regroup)), items, 0)
	}
	coll := nject.Sequence("", items...)
	return rn.bindColl(coll, c, idToPid)
}

// bindColl binds an already built collection with the case's invoke/init signatures and
// captures the plan of that Bind.
func (rn *runner) bindColl(coll *nject.Collection, c *ccase, idToPid map[int32]int) (err error, plan string, invoke, init reflect.Value) {
	invPtr := reflect.New(reflect.FuncOf(rtypes(c.invIns), rtypes(c.invOuts), false))
	var invArg any = invPtr.Interface()
	switch c.invKind {
	case 1:
		invArg = reflect.MakeFunc(invPtr.Type().Elem(), func([]reflect.Value) []reflect.Value { return nil }).Interface()
	case 2:
		invArg = nil
	case 3:
		x := 3
		invArg = &x
	}
	var initPtr reflect.Value
	var initArg any
	if c.hasInit {
		initPtr = reflect.New(reflect.FuncOf(rtypes(c.initIns), rtypes(c.initOuts), false))
		initArg = initPtr.Interface()
		switch c.initKind {
		case 1:
			initArg = reflect.MakeFunc(initPtr.Type().Elem(), func([]reflect.Value) []reflect.Value { return nil }).Interface()
		case 3:
			x := 3
			initArg = &x
		}
	}
	var got *nject.VerifBindInfo
	func() {
		observeMu.Lock()
		defer observeMu.Unlock()
		defer nject.VerifSetBindObserver(nil)
		nject.VerifSetBindObserver(func(info nject.VerifBindInfo) {
			if info.Real {
				cp := info
				got = &cp
			}
		})
		err = coll.Bind(invArg, initArg)
	}()
	if err != nil {
		// on error the caller's function variables must be left untouched
		plan = "UNTOUCHED 1"
		if !invPtr.Elem().IsNil() || (c.hasInit && !initPtr.Elem().IsNil()) {
			plan = "UNTOUCHED 0"
		}
		return err, plan, reflect.Value{}, reflect.Value{}
	}
	if got != nil {
		plan = showPlan(*got, idToPid)
	}
	invoke = invPtr.Elem()
	if c.hasInit {
		init = initPtr.Elem()
	}
	return nil, plan, invoke, init
}

func (rn *runner) args(tcs []int, pid int) []reflect.Value {
	rn.mu.Lock()
	defer rn.mu.Unlock()
	s := rn.tick()
	out := make([]reflect.Value, len(tcs))
	for i, tc := range tcs {
		out[i] = mkval(tc, false, pid, s)
	}
	return out
}

func runChain(line string) string {
	c := parseChain(line)
	rn := &runner{}
	err, plan, invoke, init := rn.bindCase(c)
	return rn.session(c, err, plan, invoke, init)
}

// observeColl binds a collection with the case's signatures and runs the case's session.
func (rn *runner) observeColl(coll *nject.Collection, c *ccase, idToPid map[int32]int) string {
	rn.mu.Lock()
	rn.cnt, rn.log, rn.dbg = 0, nil, ""
	rn.mu.Unlock()
	err, plan, invoke, init := rn.bindColl(coll, c, idToPid)
	return rn.session(c, err, plan, invoke, init)
}

func (rn *runner) session(c *ccase, err error, plan string, invoke, init reflect.Value) string {
	if err != nil {
		return fmt.Sprintf("BIND err %d ; %s", classifyBindErr(err.Error()), plan)
	}
	var res []string
	func() {
		defer func() {
			if p := recover(); p != nil {
				// nothing is specified after a panic: the rest of the session counts as panicked too
				for len(res) < len(c.steps) {
					res = append(res, "P")
				}
			}
		}()
		for _, st := range c.steps {
			if st == 0 {
				if !c.hasInit {
					res = append(res, "N")
					continue
				}
				out := init.Call(rn.args(c.initIns, pidInit))
				res = append(res, "i"+showVals(out))
			} else {
				out := invoke.Call(rn.args(c.invIns, pidInvoke))
				res = append(res, "x"+showVals(out))
			}
		}
	}()
	out := "BIND ok ; " + plan + " ; RES " + strings.Join(res, " ") + " ; LOG " + strings.Join(rn.log, " ")
	if rn.dbg != "" {
		out += " ; " + rn.dbg
	}
	return out
}

// regroupItems re-expresses a provider list through nested Sequences and Append; the flattened
// list is the same, so validity and behaviour must be the same (C13).
func regroupItems(r *rng, items []any, depth int) []any {
	if len(items) < 2 || depth > 2 {
		return items
	}
	var out []any
	i := 0
	g := 0
	for i < len(items) {
		n := 1 + r.intn(4)
		if i+n > len(items) {
			n = len(items) - i
		}
		chunk := items[i : i+n]
		g++
		name := fmt.Sprintf("g%d_%d", depth, g)
		switch r.intn(5) {
		case 0:
			out = append(out, chunk...)
		case 1:
			out = append(out, nject.Sequence(name, regroupItems(r, chunk, depth+1)...))
		case 2:
			// base.Append twice: the first result must not be affected by the second
			k := len(chunk) - 1
			if k < 1 {
				k = 1
			}
			c := nject.Sequence(name, chunk[:k]...)
			first := c.Append(name+"a", chunk[k:]...)
			_ = c.Append(name+"decoy", chunk[0], chunk[0], chunk[0])
			out = append(out, first)
		case 3:
			out = append(out, nject.Sequence(name, nject.Sequence(name+"i", chunk...)))
		default:
			// an unnamed sub-collection, and an empty one next to it
			out = append(out, nject.Sequence("", chunk...), nject.Sequence(name+"e"))
		}
		i += n
	}
	return out
}

// liftable finds a run of consecutive unclustered providers starting at i that all carry one
// of a few annotations (chosen pseudo-randomly from the seed) and returns its end, the flag and the
// annotation function to apply to the collection.
func liftable(provs []*cprovider, i int, seed int) (int, int, func(any) nject.Provider) {
	type cand struct {
		flag int
		fn   func(any) nject.Provider
	}
	cands := []cand{{aDesired, nject.Desired}, {aCacheable, nject.Cacheable}, {aRequired, nject.Required}, {aShun, nject.Shun}, {aNonFinal, nject.NonFinal}}
	cd := cands[seed%len(cands)]
	if seed%3 != 0 {
		return i, 0, nil
	}
	j := i
	for j < len(provs) && provs[j].cluster == 0 && provs[j].annots&cd.flag != 0 && provs[j].rep == 0 && provs[j].bef == 0 && provs[j].aft == 0 {
		j++
	}
	return j, cd.flag, cd.fn
}
