package main

import (
	"fmt"
	"reflect"
	"strconv"
	"strings"
	"sync"

	"github.com/muir/nject/v2"
)

// Stream "edits" (C18): lists of named no-op injectors with ReplaceNamed / InsertBeforeNamed /
// InsertAfterNamed directives.  Case line:
//
//	E <collname> <n> <origin rep bef aft>*n
//
// names are small integers, 0 = "".  origin is the provider's own Provide() name (0 = none; it
// then inherits the collection name, as newCollection/renameIfEmpty do).  Observation:
//
//	OK id id ...      execution order of the providers (ids = original positions)
//	ERR <class>       Bind failed; class from the message
func init() {
	streams["edits"] = &stream{gen: genEdits, run: runEdits}
}

func nameStr(i int) string {
	if i == 0 {
		return ""
	}
	return "n" + strconv.Itoa(i)
}

func genEdits(r *rng) string {
	n := 1 + r.intn(14)
	if r.chance(1, 4) {
		n = 1 + r.intn(6)
	}
	coll := 0
	if r.chance(1, 2) {
		coll = 9 // collection name "n9": unnamed providers inherit it
	}
	origin := make([]int, n)
	// names appear in runs (blocks); most blocks get a fresh name so that targets are unique
	fresh := 0
	var defined []int
	i := 0
	for i < n {
		nm := 0
		switch {
		case r.chance(6, 10) && fresh < 6:
			fresh++
			nm = fresh
			defined = append(defined, nm)
		case r.chance(1, 6) && len(defined) > 0:
			nm = defined[r.intn(len(defined))] // duplicated name
		}
		run := 1 + r.intn(3)
		for k := 0; k < run && i < n; k++ {
			origin[i] = nm
			i++
		}
	}
	rep := make([]int, n)
	bef := make([]int, n)
	aft := make([]int, n)
	nDir := r.intn(6)
	if r.chance(1, 2) {
		nDir = 1 + r.intn(2)
	}
	if r.chance(1, 12) {
		nDir = 0
	}
	for d := 0; d < nDir; d++ {
		pos := r.intn(n)
		target := 7 // never defined
		if len(defined) > 0 {
			target = defined[r.intn(len(defined))]
		}
		switch {
		case r.chance(1, 30):
			target = 7 // missing target
		case coll != 0 && r.chance(1, 15):
			target = coll
		}
		// avoid self-reference most of the time
		for try := 0; try < 4 && origin[pos] == target && !r.chance(1, 10); try++ {
			pos = r.intn(n)
		}
		kind := r.intn(3)
		run := 1
		if r.chance(1, 3) {
			run = 1 + r.intn(3)
		}
		for k := 0; k < run && pos+k < n; k++ {
			if (rep[pos+k] != 0 || bef[pos+k] != 0 || aft[pos+k] != 0) && !r.chance(1, 15) {
				// keep two tags on one provider rare
				continue
			}
			switch kind {
			case 0:
				rep[pos+k] = target
			case 1:
				bef[pos+k] = target
			default:
				aft[pos+k] = target
			}
		}
	}
	var sb strings.Builder
	fmt.Fprintf(&sb, "E %d %d", coll, n)
	for i := 0; i < n; i++ {
		fmt.Fprintf(&sb, " %d %d %d %d", origin[i], rep[i], bef[i], aft[i])
	}
	return sb.String()
}

func atoi(s string) int {
	v, err := strconv.Atoi(s)
	if err != nil {
		panic("bad integer in case: " + s)
	}
	return v
}

func classifyEditErr(msg string) int {
	switch {
	case strings.Contains(msg, "can have only one of"):
		return 1
	case strings.Contains(msg, "not in chain"):
		return 2
	case strings.Contains(msg, "duplicated in chain"):
		return 3
	case strings.Contains(msg, "refers to itself"):
		return 4
	}
	return 0
}

func runEdits(line string) string {
	f := strings.Fields(line)
	coll := atoi(f[1])
	n := atoi(f[2])
	var mu sync.Mutex
	var order []int
	items := make([]any, 0, n)
	ft := reflect.TypeOf(func() {})
	for i := 0; i < n; i++ {
		id := i
		origin, rep, bef, aft := atoi(f[3+4*i]), atoi(f[4+4*i]), atoi(f[5+4*i]), atoi(f[6+4*i])
		fn := reflect.MakeFunc(ft, func([]reflect.Value) []reflect.Value {
			mu.Lock()
			order = append(order, id)
			mu.Unlock()
			return nil
		}).Interface()
		var p any = fn
		if origin != 0 {
			p = nject.Provide(nameStr(origin), p)
		}
		if rep != 0 {
			p = nject.ReplaceNamed(nameStr(rep), p)
		}
		if bef != 0 {
			p = nject.InsertBeforeNamed(nameStr(bef), p)
		}
		if aft != 0 {
			p = nject.InsertAfterNamed(nameStr(aft), p)
		}
		items = append(items, p)
	}
	c := nject.Sequence(nameStr(coll), items...)
	var invoke func()
	err := c.Bind(&invoke, nil)
	if err != nil {
		return fmt.Sprintf("ERR %d", classifyEditErr(err.Error()))
	}
	invoke()
	var sb strings.Builder
	sb.WriteString("OK")
	for _, id := range order {
		fmt.Fprintf(&sb, " %d", id)
	}
	return sb.String()
}
