package main

// condense (C19): a collection is condensed (both error treatments) and (A) bound directly with
// an invoke function whose parameters are the condensed provider's inputs and whose results are
// its outputs, (B) embedded in an outer chain  [condensed, final]  bound with the same invoke
// signature, the final function handing what it receives back up.  The observation carries the
// condensed provider's signature, the full observation of A (compared with the model) and the
// results / call log of B (compared with A by the monitor).
// flows (C19): DownFlows / UpFlows of the raw collection as the public API reports them.

import (
	"fmt"
	"reflect"
	"strings"

	"github.com/muir/nject/v2"
)

func init() {
	streams["condense"] = &stream{gen: genCondense, run: runCondense}
}

const pidOuterFinal = 99

func genCondense(r *rng) string {
	for {
		c := genChain(r, chainOpts{moreWrap: r.chance(1, 3), moreFall: r.chance(1, 3)})
		dbg := tcOf(pDebug)
		un := tcOf(pUnused)
		for _, p := range c.provs {
			p.ins = stripType(stripType(p.ins, dbg), un)
		}
		c.hasInit = false
		c.initIns, c.initOuts = nil, nil
		c.steps = []int{1, 1}
		c.invKind, c.initKind = 0, 0
		return fmt.Sprintf("N %d ## %s", r.intn(2), c.encode())
	}
}

func typeCodesOf(ts []reflect.Type) []int {
	out := make([]int, len(ts))
	for i, t := range ts {
		out[i] = nject.VerifTypeCode(t)
	}
	return out
}

func showFlows(name string, in, out []reflect.Type) string {
	return fmt.Sprintf("%s %s>%s", name, joinInts(typeCodesOf(in)), joinInts(typeCodesOf(out)))
}

func joinInts(l []int) string {
	s := make([]string, len(l))
	for i, x := range l {
		s[i] = fmt.Sprint(x)
	}
	return strings.Join(s, ",")
}

func runCondense(line string) string {
	parts := strings.Split(line, " ## ")
	treat := strings.Fields(parts[0])[1] == "1"
	c := parseChain(parts[1])
	errT, teT := tcOf(pError), tcOf(pTerminal)

	// the public flows of the raw collection
	rnF := &runner{}
	rawColl := nject.Sequence("raw", rnF.buildItems(c, map[int32]int{})...)
	di, do := rawColl.DownFlows()
	ui, uo := rawColl.UpFlows()
	flows := showFlows("RAWDOWN", di, do) + " ; " + showFlows("RAWUP", ui, uo)

	// B: condense and embed
	rnB := &runner{}
	idsB := map[int32]int{}
	collB := nject.Sequence("inner", rnB.buildItems(c, idsB)...)
	var p nject.Provider
	var cerr error
	func() {
		observeMu.Lock()
		defer observeMu.Unlock()
		p, cerr = collB.Condense(treat)
	}()
	if cerr != nil {
		return fmt.Sprintf("CONDENSE err ; %s", flows)
	}
	pin, pout := p.DownFlows()
	_, pup := p.UpFlows()
	downIn := typeCodesOf(pin)
	var outs []int
	hasErr := false
	for _, tc := range typeCodesOf(pout) {
		if tc == errT || tc == teT {
			hasErr = true
			continue
		}
		outs = append(outs, tc)
	}
	for _, tc := range typeCodesOf(pup) {
		if tc == errT {
			hasErr = true
		}
	}
	sig := fmt.Sprintf("SIG %s>%s e%d", joinInts(downIn), joinInts(outs), b2i(hasErr))
	invOuts := append([]int{}, outs...)
	if hasErr {
		invOuts = append(invOuts, errT)
	}

	// A: the same description bound directly with that signature
	ca := parseChain(parts[1])
	ca.invIns, ca.invOuts = downIn, invOuts
	rnA := &runner{}
	obsA := rnA.session2(ca)

	// B: outer chain [condensed, final]
	finIns := append([]int{}, outs...)
	if hasErr && !treat {
		finIns = append(finIns, errT)
	}
	finT := reflect.FuncOf(rtypes(finIns), rtypes(finIns), false)
	final := reflect.MakeFunc(finT, func(in []reflect.Value) []reflect.Value {
		rnB.mu.Lock()
		defer rnB.mu.Unlock()
		rnB.logf("C%d%s>%s", pidOuterFinal, showVals(in), showVals(in))
		return in
	}).Interface()
	outer := nject.Sequence("outer", p, final)
	invPtr := reflect.New(reflect.FuncOf(rtypes(downIn), rtypes(invOuts), false))
	var berr error
	func() {
		observeMu.Lock()
		defer observeMu.Unlock()
		berr = outer.Bind(invPtr.Interface(), nil)
	}()
	if berr != nil {
		return fmt.Sprintf("CONDENSE ok ; %s ; %s ## %s ## B BIND err %s", sig, flows, obsA, sanitize(berr.Error()))
	}
	rnB.mu.Lock()
	rnB.cnt, rnB.log = 0, nil
	rnB.mu.Unlock()
	var res []string
	func() {
		defer func() {
			if pn := recover(); pn != nil {
				res = append(res, "P")
			}
		}()
		for range ca.steps {
			out := invPtr.Elem().Call(rnB.args(downIn, pidInvoke))
			res = append(res, "x"+showVals(out))
		}
	}()
	return fmt.Sprintf("CONDENSE ok ; %s ; %s ## %s ## B RES %s ; LOG %s", sig, flows, obsA, strings.Join(res, " "), strings.Join(rnB.log, " "))
}

func b2i(b bool) int {
	if b {
		return 1
	}
	return 0
}

// session2 binds the case's own collection and runs its session (fresh runner state).
func (rn *runner) session2(c *ccase) string {
	err, plan, invoke, init := rn.bindCase(c)
	return rn.session(c, err, plan, invoke, init)
}
