package main

// history (C11): a collection is built once; then a seeded history of API operations runs over a
// pool of collections that share its providers (derive with Append/Sequence, annotate whole
// collections and single shared providers, bind with the original and with other signatures, run,
// condense, inspect, bind concurrently).  Afterwards the original collection is bound and observed
// twice, a collection derived from it before the history is observed, and a collection derived
// after the history is observed in a context in which a generated provider (GenerateFromInjection
// Chain) picks another replacement.  Every observation must equal the model's for the flat list:
// nothing in the history may have changed a collection that already existed.

import (
	"fmt"
	"reflect"
	"strings"
	"sync"

	"github.com/muir/nject/v2"
)

func init() {
	streams["history"] = &stream{gen: genHistory, run: runHistory}
}

const pidAlt = 80

type hDecoy struct{ n int }
type hDecoy2 struct{ n int }

const pidMarker = 81

func maxPid(c *ccase) int {
	m := 0
	for _, p := range c.provs {
		if p.pid > m {
			m = p.pid
		}
	}
	return m
}

func genHistory(r *rng) string {
	for {
		c := genChain(r, chainOpts{})
		if r.chance(1, 6) {
			// stacks of wrappers returning one type, some with AllowReturnShadowing for it or for another
			// type: an allowance given to a derived provider must not reach the original
			c = genShadowMotif(r)
		}
		if r.chance(1, 4) {
			// two concrete types of one Loose'd provider that match an interface equally well
			// apart from the last tie-breaker: which one is injected must not vary
			i0 := tcOf(pI0)
			n := maxPid(c)
			src := &cprovider{pid: n + 1, shape: 2, outs: []int{tcOf(pT1), tcOf(pT3)}, loose: []int{i0}}
			if r.chance(1, 2) {
				src.outs = []int{tcOf(pT3), tcOf(pT1)}
			}
			use := &cprovider{pid: n + 2, shape: 2, ins: []int{i0}}
			// ... and an optional consumer of an interface the source is not Loose for
			use2 := &cprovider{pid: n + 3, shape: 2, ins: []int{tcOf(pI1 + r.intn(2))}}
			pos := r.intn(len(c.provs))
			for pos > 0 && c.provs[pos].cluster != 0 && c.provs[pos-1].cluster == c.provs[pos].cluster {
				pos-- // do not split a cluster
			}
			provs := append([]*cprovider{}, c.provs[:pos]...)
			provs = append(provs, use, use2)
			provs = append(provs, c.provs[pos:]...)
			c.provs = append([]*cprovider{src}, provs...)
		}
		var cands []int
		for i, p := range c.provs {
			// the process-wide Memoize/Singleton caches are history by design (C09)
			p.annots &^= aMemoize | aSingleton
			if p.cluster == 0 && p.shape != 1 {
				cands = append(cands, i)
			}
		}
		gpos := -1
		if len(cands) > 0 && r.chance(3, 4) {
			gpos = cands[r.intn(len(cands))]
		}
		base := c.encode()
		late := parseChain(base)
		if gpos >= 0 {
			late.provs[gpos].pid = pidAlt
		}
		// a collection derived by Append of one more (NonFinal, auto-desired) provider
		e3 := parseChain(base)
		var fin *cprovider
		for _, p := range e3.provs {
			if p.annots&aNonFinal == 0 {
				fin = p
			}
		}
		if fin != nil && fin.shape == 2 && fin.cluster == 0 && r.chance(1, 3) {
			// ... or of a new final function returning what the old one returned: the old final
			// function becomes an ordinary provider (nothing a Condense or Bind of the base did to it
			// while it was the final function may stick)
			e3.provs = append(e3.provs, &cprovider{pid: pidMarker, shape: 2, outs: append([]int{}, fin.outs...)})
		} else {
			e3.provs = append(e3.provs, &cprovider{pid: pidMarker, shape: 2, annots: aNonFinal})
		}
		return fmt.Sprintf("H %d %d ## %s ## %s ## %s", 1+r.intn(1<<30), gpos, base, e3.encode(), late.encode())
	}
}

func quietly(f func()) {
	defer func() { _ = recover() }()
	f()
}

// buildHistoryItems builds the Sequence arguments for the case; provider gpos (if any) stands behind a
// generator that returns it, or its alternative in late mode.
func (rn *runner) buildHistoryItems(c, late *ccase, gpos int, idToPid map[int32]int, lateMode *bool) []any {
	items := rn.buildItems(c, idToPid)
	if gpos < 0 {
		return items
	}
	// items are per provider outside clusters, one per cluster otherwise
	idx, i := 0, 0
	for i < gpos {
		if c.provs[i].cluster != 0 {
			j := i
			for j < len(c.provs) && c.provs[j].cluster == c.provs[i].cluster {
				j++
			}
			i = j
		} else {
			i++
		}
		idx++
	}
	orig := items[idx].(nject.Provider)
	alt := annotate(late.provs[gpos], rn.makeProvider(late.provs[gpos])).(nject.Provider)
	for _, id := range nject.VerifIDs(alt) {
		idToPid[id] = pidAlt
	}
	var gen any = nject.GenerateFromInjectionChain(fmt.Sprintf("gen%d", gpos),
		func(_ nject.Collection, _ nject.Collection) (nject.Provider, error) {
			if *lateMode {
				return alt, nil
			}
			return orig, nil
		})
	if c.provs[gpos].annots&aNonFinal != 0 {
		// the stand-in must be skipped like the provider it stands for when the final function is located
		gen = nject.NonFinal(gen)
	}
	items[idx] = gen
	return items
}

func runHistory(line string) string {
	parts := strings.Split(line, " ## ")
	hdr := strings.Fields(parts[0])
	seed, gpos := atoi(hdr[1]), atoi(hdr[2])
	c := parseChain(parts[1])
	e3c := parseChain(parts[2])
	late := parseChain(parts[3])
	lateMode := false
	var out []string

	// reference: a copy of the same description that is bound once and never touched otherwise
	{
		rn0 := &runner{}
		ids0 := map[int32]int{}
		ref := nject.Sequence("", rn0.buildHistoryItems(c, late, gpos, ids0, &lateMode)...)
		out = append(out, rn0.observeColl(ref, c, ids0))
	}

	rn := &runner{}
	idToPid := map[int32]int{}
	items := rn.buildHistoryItems(c, late, gpos, idToPid, &lateMode)
	base := nject.Sequence("", items...)
	early := nject.Sequence("early", base)
	early2 := base.Append("early2")
	mk := e3c.provs[len(e3c.provs)-1]
	marker := annotate(mk, rn.makeProvider(mk))
	for _, id := range nject.VerifIDs(marker) {
		idToPid[id] = pidMarker
	}
	early3 := base.Append("early3", marker)

	rn.history(uint64(seed), base, c, items)
	_ = base.Append("clobber", func() hDecoy { return hDecoy{9} }, func(hDecoy) hDecoy2 { return hDecoy2{9} })

	out = append(out, rn.observeColl(base, c, idToPid))
	out = append(out, rn.observeColl(base, c, idToPid))
	out = append(out, rn.observeColl(early, c, idToPid))
	out = append(out, rn.observeColl(early2, c, idToPid))
	out = append(out, rn.observeColl(early3, e3c, idToPid))
	lateColl := base.Append("late")
	lateMode = true
	out = append(out, rn.observeColl(lateColl, late, idToPid))
	lateMode = false
	out = append(out, rn.observeColl(base, c, idToPid))
	return strings.Join(out, " ## ")
}

func decoys(r *rng) []any {
	var out []any
	for k := r.intn(3); k >= 0; k-- {
		switch r.intn(3) {
		case 0:
			out = append(out, func() hDecoy { return hDecoy{1} })
		case 1:
			out = append(out, func(hDecoy) hDecoy2 { return hDecoy2{2} })
		default:
			out = append(out, nject.NonFinal(func() {}))
		}
	}
	return out
}

func (rn *runner) history(seed uint64, base *nject.Collection, c *ccase, items []any) {
	r := newRng(seed)
	pool := []*nject.Collection{base}
	collAnn := []func(any) nject.Provider{nject.Required, nject.Desired, nject.Shun, nject.Cacheable, nject.MustCache,
		nject.NotCacheable, nject.NonFinal, nject.Reorder, nject.Parallel}
	bindOrig := func(x *nject.Collection) {
		quietly(func() {
			err, _, invoke, init := rn.bindColl(x, c, map[int32]int{})
			if err != nil {
				return
			}
			if c.hasInit {
				init.Call(rn.args(c.initIns, pidInit))
			}
			invoke.Call(rn.args(c.invIns, pidInvoke))
		})
	}
	// derive re-annotated providers from every shared provider: the originals must not change
	for _, it := range items {
		p, ok := it.(nject.Provider)
		if !ok {
			continue
		}
		for _, ip := range []int{pI0, pI1, pI2, pJ0} {
			quietly(func() { _ = tcToPool[tcOf(ip)].loose(p) })
		}
		for _, tp := range []int{pT0, pT1, pT2, pT3, pT4, pError} {
			quietly(func() { _ = tcToPool[tcOf(tp)].mustConsume(p) })
			quietly(func() { _ = tcToPool[tcOf(tp)].consOpt(p) })
			quietly(func() { _ = tcToPool[tcOf(tp)].allowShadow(p) })
		}
	}
	n := 3 + r.intn(8)
	for k := 0; k < n; k++ {
		x := pool[r.intn(len(pool))]
		switch r.intn(12) {
		case 0:
			pool = append(pool, x.Append("h", decoys(r)...))
			// a second Append on the same collection must not disturb the first
			_ = x.Append("h2", decoys(r)...)
		case 1:
			quietly(func() {
				if y, ok := collAnn[r.intn(len(collAnn))](x).(*nject.Collection); ok {
					pool = append(pool, y)
				}
			})
		case 2:
			pool = append(pool, nject.Sequence("w", append(append(decoys(r), x), decoys(r)...)...))
		case 3, 4:
			bindOrig(x)
		case 5:
			quietly(func() {
				var f func()
				_ = x.Bind(&f, nil)
				if f != nil {
					f()
				}
			})
		case 6:
			quietly(func() {
				var f func() error
				_ = x.Bind(&f, nil)
			})
		case 7:
			quietly(func() {
				p, err := x.Condense(r.chance(1, 2))
				if err != nil {
					return
				}
				var f func()
				_ = nject.Sequence("cond", p, func() {}).Bind(&f, nil)
			})
		case 8:
			quietly(func() {
				_, _ = x.DownFlows()
				_, _ = x.UpFlows()
				_ = x.String()
			})
		case 9:
			// re-annotate single shared providers: the originals must not change
			for _, it := range items {
				p, ok := it.(nject.Provider)
				if !ok || !r.chance(1, 2) {
					continue
				}
				ifaces := []int{tcOf(pI0), tcOf(pI1), tcOf(pI2), tcOf(pJ0)}
				// mostly a type the chain itself puts out or returns: an annotation that leaked into
				// the original provider then matters
				pick := func() int {
					var own []int
					for _, q := range c.provs {
						own = append(own, q.outs...)
						own = append(own, q.innerIns...)
					}
					if len(own) > 0 && r.chance(3, 4) {
						t := own[r.intn(len(own))]
						if _, ok := tcToPool[t]; ok {
							return t
						}
					}
					return pool0types(r)
				}
				quietly(func() {
					switch r.intn(5) {
					case 0:
						_ = tcToPool[ifaces[r.intn(len(ifaces))]].loose(p)
						_ = tcToPool[ifaces[r.intn(len(ifaces))]].loose(p)
					case 1:
						_ = tcToPool[pick()].mustConsume(p)
					case 2:
						_ = tcToPool[pick()].consOpt(p)
					case 3:
						_ = tcToPool[pick()].allowShadow(p)
					default:
						_ = collAnn[r.intn(len(collAnn))](p)
					}
				})
			}
		case 10:
			// concurrent binds of collections that share providers
			var wg sync.WaitGroup
			for g := 2 + r.intn(3); g > 0; g-- {
				y := pool[r.intn(len(pool))]
				wg.Add(1)
				go func() {
					defer wg.Done()
					quietly(func() {
						invPtr := reflect.New(reflect.FuncOf(rtypes(c.invIns), rtypes(c.invOuts), false))
						var initArg any
						if c.hasInit {
							initArg = reflect.New(reflect.FuncOf(rtypes(c.initIns), rtypes(c.initOuts), false)).Interface()
						}
						_ = y.Bind(invPtr.Interface(), initArg)
					})
				}()
			}
			wg.Wait()
		default:
			quietly(func() {
				_ = nject.Run("run", x)
			})
			quietly(func() {
				_ = x.SetCallback(func(func()) {})
			})
		}
	}
}

// pool0types picks the type code of a pool type that has annotation helpers.
func pool0types(r *rng) int {
	return pool[r.intn(len(pool))].tc
}
