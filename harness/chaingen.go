package main

// Generator for the "chain" stream: mostly-valid provider chains grown forward (inputs are
// usually available) with return flows assigned so that returned types are usually received.

func init() {
	streams["chain"] = &stream{gen: func(r *rng) string { return genChain(r, chainOpts{}).encode() }, run: runChain}
	// static: more literals / cacheable-family providers / init functions, longer sessions (C06, C10)
	streams["static"] = &stream{gen: func(r *rng) string { return genChain(r, chainOpts{moreStatic: true}).encode() }, run: runChain}
}

type chainOpts struct {
	noStatic   bool // no cacheable-family annotations, no init
	noSelect   bool // no Shun/Desired/MustConsume/duplicates pressure
	moreWrap   bool
	moreFall   bool
	allowEdits bool
	moreStatic bool
	big        bool // 10-25 providers
}

func tcOf(i int) int { return pool[i].tc }

func pickFrom(r *rng, l []int) int { return l[r.intn(len(l))] }

func containsInt(l []int, x int) bool {
	for _, y := range l {
		if y == x {
			return true
		}
	}
	return false
}

func genChain(r *rng, o chainOpts) *ccase {
	c := &ccase{}
	// the concrete types this case draws from
	nTypes := 3 + r.intn(4)
	var types []int
	perm := []int{pT0, pT1, pT2, pT3, pT4, pT5, pT6, pT7, pU0, pU1}
	for i := len(perm) - 1; i > 0; i-- {
		j := r.intn(i + 1)
		perm[i], perm[j] = perm[j], perm[i]
	}
	for i := 0; i < nTypes; i++ {
		types = append(types, tcOf(perm[i]))
	}
	ifaces := []int{tcOf(pI0), tcOf(pI1), tcOf(pI2), tcOf(pJ0)}
	errT, teT, unusedT, debugT := tcOf(pError), tcOf(pTerminal), tcOf(pUnused), tcOf(pDebug)

	n := 2 + r.intn(8)
	if r.chance(1, 5) {
		n = 1 + r.intn(3)
	}
	if o.big {
		n = 10 + r.intn(16)
	}
	nWrap := 0
	wantErr := false

	// up-flow plan: what invoke receives
	var invOuts []int
	for k := r.intn(3); k > 0; k-- {
		t := pickFrom(r, types)
		if !containsInt(invOuts, t) {
			invOuts = append(invOuts, t)
		}
	}

	// down side
	var avail []int // types available downward so far
	hasInit := !o.noStatic && (r.chance(1, 3) || (o.moreStatic && r.chance(1, 2)))
	if hasInit {
		c.hasInit = true
		for k := r.intn(2); k > 0; k-- {
			t := pickFrom(r, types)
			c.initIns = append(c.initIns, t)
			avail = append(avail, t)
		}
	}
	var staticAvail []int
	staticAvail = append(staticAvail, avail...)
	for k := r.intn(3); k > 0; k-- {
		t := pickFrom(r, types)
		c.invIns = append(c.invIns, t)
	}
	invokeAdded := false
	addInvoke := func() {
		if !invokeAdded {
			avail = append(avail, c.invIns...)
			invokeAdded = true
		}
	}

	pickIn := func(static bool) int {
		src := avail
		if static {
			src = staticAvail
		}
		switch {
		case len(src) > 0 && r.chance(85, 100):
			t := pickFrom(r, src)
			// sometimes ask for an interface the type implements
			if r.chance(1, 10) {
				pt := tcToPool[t]
				var cands []int
				for _, i := range ifaces {
					if pt.t.Implements(tcToPool[i].t) {
						cands = append(cands, i)
					}
				}
				if len(cands) > 0 {
					return pickFrom(r, cands)
				}
			}
			return t
		case r.chance(1, 30):
			return unusedT
		case r.chance(1, 30):
			return debugT
		case r.chance(1, 12):
			return pickFrom(r, ifaces)
		}
		return pickFrom(r, types)
	}

	clusterID := 0
	clusterLeft := 0
	for i := 0; i < n; i++ {
		p := &cprovider{pid: i + 1}
		last := i == n-1
		kind := r.intn(100)
		if o.moreStatic && !invokeAdded && r.chance(1, 2) {
			kind = r.intn(22) // literal or static candidate
		}
		static := false
		switch {
		case last:
			// final function
			p.shape = 2
			addInvoke()
			for k := r.intn(3); k > 0; k-- {
				p.ins = append(p.ins, pickIn(false))
			}
			// returns: mostly what invoke wants
			if r.chance(75, 100) {
				p.outs = append(p.outs, invOuts...)
			} else {
				for k := r.intn(3); k > 0; k-- {
					p.outs = append(p.outs, pickFrom(r, types))
				}
			}
			if r.chance(1, 25) {
				p.outs = append(p.outs, errT)
			}
		case kind < 12 && !invokeAdded:
			// literal
			p.shape = 1
			p.lit = pickFrom(r, types)
			avail = append(avail, p.lit)
			staticAvail = append(staticAvail, p.lit)
		case kind < 22 && !o.noStatic && !invokeAdded:
			// static candidate
			p.shape = 2
			static = true
			for k := r.intn(3); k > 0; k-- {
				p.ins = append(p.ins, pickIn(true))
			}
			for k := 1 + r.intn(2); k > 0; k-- {
				p.outs = append(p.outs, pickFrom(r, types))
			}
			if r.chance(1, 5) {
				p.outs = append(p.outs, teT)
				if r.chance(1, 2) {
					p.failmask = r.intn(256)
				}
			}
			switch r.intn(8) {
			case 0:
				p.annots |= aMustCache
			case 1:
				p.annots |= aMemoize
			case 2:
				p.annots |= aSingleton
			default:
				p.annots |= aCacheable
			}
			if r.chance(1, 15) {
				p.annots |= aNotCacheable
			}
			avail = append(avail, p.outs...)
			staticAvail = append(staticAvail, p.outs...)
		case kind < 40 || (o.moreWrap && kind < 60):
			// wrapper
			addInvoke()
			p.shape = 3
			nWrap++
			for k := r.intn(3); k > 0; k-- {
				p.ins = append(p.ins, pickIn(false))
			}
			for k := r.intn(2); k > 0; k-- {
				t := pickFrom(r, types)
				p.innerIns = append(p.innerIns, t)
			}
			// receives / returns drawn from what invoke expects (plus error sometimes)
			upPool := append([]int{}, invOuts...)
			if wantErr || r.chance(1, 4) {
				upPool = append(upPool, errT)
			}
			for _, t := range upPool {
				if r.chance(1, 2) {
					p.innerOuts = append(p.innerOuts, t)
				}
			}
			for _, t := range upPool {
				if containsInt(p.innerOuts, t) && r.chance(3, 4) || r.chance(1, 8) {
					p.outs = append(p.outs, t)
				}
			}
			if r.chance(1, 12) {
				p.outs = append(p.outs, pickFrom(r, types))
			}
			if r.chance(1, 40) {
				p.innerOuts = append(p.innerOuts, unusedT)
			}
			switch r.intn(6) {
			case 0:
				p.calls = []int{0}
			case 1:
				p.calls = []int{2}
			case 2:
				p.calls = []int{1, 0, 2, 3}[:1+r.intn(4)]
			case 3:
				p.calls = []int{3, 1, 0}
			}
			p.passthru = r.chance(1, 2)
			if r.chance(1, 12) {
				p.annots |= aParallel
			}
			avail = append(avail, p.innerIns...)
		default:
			// injector, maybe fallible
			addInvoke()
			p.shape = 2
			for k := r.intn(3); k > 0; k-- {
				p.ins = append(p.ins, pickIn(false))
			}
			for k := r.intn(3); k > 0; k-- {
				p.outs = append(p.outs, pickFrom(r, types))
			}
			if r.chance(1, 25) {
				p.outs = append(p.outs, errT)
			}
			if r.chance(1, 30) {
				p.outs = append(p.outs, unusedT)
			}
			fallChance := 15
			if o.moreFall {
				fallChance = 40
			}
			if r.chance(fallChance, 100) {
				// TerminalError at a random result position
				pos := r.intn(len(p.outs) + 1)
				p.outs = append(p.outs[:pos], append([]int{teT}, p.outs[pos:]...)...)
				wantErr = true
				switch r.intn(3) {
				case 0:
					p.failmask = 0
				case 1:
					p.failmask = 255
				default:
					p.failmask = r.intn(256)
				}
			}
			if !o.noStatic && (r.chance(1, 12) || (o.moreStatic && r.chance(1, 3))) {
				switch r.intn(4) {
				case 0:
					p.annots |= aMemoize
				case 1:
					p.annots |= aMustCache
				default:
					p.annots |= aCacheable
				}
			}
			for _, t := range p.outs {
				if t != teT {
					avail = append(avail, t)
				}
			}
		}
		_ = static
		// selection-related annotations
		if !o.noSelect {
			switch {
			case r.chance(1, 12):
				p.annots |= aRequired
			case r.chance(1, 12):
				p.annots |= aDesired
			case r.chance(1, 12):
				p.annots |= aShun
			}
			if p.shape == 2 && len(p.outs) > 0 && r.chance(1, 14) && !last {
				p.hasMC = true
				p.mc = []int{p.outs[r.intn(len(p.outs))]}
				if len(p.outs) >= 2 && r.chance(1, 3) {
					p.mc = append([]int{}, p.outs[:2]...) // stacked annotations
				}
			}
			rets := p.outs
			if (p.shape == 3 || last) && len(rets) > 0 && r.chance(1, 12) {
				p.hasCO = true
				p.co = []int{rets[r.intn(len(rets))]}
				if len(rets) >= 2 && r.chance(1, 3) {
					p.co = append([]int{}, rets[:2]...)
				}
			}
			if p.shape == 3 && len(p.outs) > 0 && r.chance(1, 15) {
				p.sa = []int{p.outs[r.intn(len(p.outs))]}
				if len(p.outs) >= 2 && r.chance(1, 3) {
					p.sa = append([]int{}, p.outs[:2]...)
				}
			}
			// Loose for an interface one of the outputs implements
			outsDown := p.outs
			if p.shape == 3 {
				outsDown = p.innerIns
			}
			if p.shape == 1 {
				outsDown = []int{p.lit}
			}
			if len(outsDown) > 0 && r.chance(1, 6) {
				t := outsDown[r.intn(len(outsDown))]
				if pt, ok := tcToPool[t]; ok && !pt.iface {
					for _, i := range ifaces {
						if pt.t.Implements(tcToPool[i].t) && r.chance(2, 3) {
							p.loose = append(p.loose, i)
						}
					}
				}
			}
			if r.chance(1, 25) && !last {
				p.annots |= aNonFinal
			}
		}
		if r.chance(1, 10) && p.shape != 1 {
			p.annots |= aReflective
		}
		// clusters: runs of 2-3 consecutive providers
		if clusterLeft > 0 {
			p.cluster = clusterID
			clusterLeft--
		} else if !o.noSelect && r.chance(1, 20) && !last {
			clusterID++
			p.cluster = clusterID
			clusterLeft = 1 + r.intn(2)
		}
		c.provs = append(c.provs, p)
	}
	// NonFinal: list the final function before its last k providers, which are marked NonFinal
	if len(c.provs) >= 3 && r.chance(1, 7) {
		k := 1 + r.intn(3)
		if k > len(c.provs)-1 {
			k = len(c.provs) - 1
		}
		np := len(c.provs)
		fin := c.provs[np-1]
		tailp := append([]*cprovider{}, c.provs[np-1-k:np-1]...)
		for _, q := range tailp {
			q.annots |= aNonFinal
		}
		for _, q := range c.provs {
			q.cluster = 0 // a cluster must stay a run of adjacent providers
		}
		c.provs = append(append(c.provs[:np-1-k:np-1-k], fin), tailp...)
	}
	if wantErr && !containsInt(invOuts, errT) && r.chance(85, 100) {
		invOuts = append(invOuts, errT)
		// the final function may also return error then
	}
	c.invOuts = invOuts
	if hasInit {
		for k := r.intn(3); k > 0 && len(staticAvail) > 0; k-- {
			c.initOuts = append(c.initOuts, pickFrom(r, staticAvail))
		}
		if r.chance(1, 10) {
			c.initOuts = append(c.initOuts, errT)
		}
	}
	// session
	nSteps := 1 + r.intn(3)
	if o.moreStatic {
		nSteps = 2 + r.intn(4)
	}
	for k := 0; k < nSteps; k++ {
		if hasInit && r.chance(1, 3) {
			c.steps = append(c.steps, 0)
		}
		c.steps = append(c.steps, 1)
	}
	if hasInit && r.chance(4, 5) {
		c.steps = append([]int{0}, c.steps...)
	}
	return c
}

// ifaceout: chains with providers that *output* interface-typed values: a source that is Loose for
// an interface, a decorator func(I) I, and consumers of I; all three static-eligible or not.
func init() {
	streams["ifaceout"] = &stream{gen: func(r *rng) string {
		c := genChain(r, chainOpts{moreStatic: r.chance(1, 2)})
		if r.chance(1, 2) {
			addDecoMotif(r, c)
		} else {
			addUpDecoMotif(r, c)
		}
		return c.encode()
	}, run: runChain}
}

func addDecoMotif(r *rng, c *ccase) {
	pairs := [][2]int{{pT0, pI0}, {pT1, pI1}, {pT2, pI2}, {pU0, pJ0}, {pT1, pI0}, {pT3, pI2}}
	pr := pairs[r.intn(len(pairs))]
	t, i := tcOf(pr[0]), tcOf(pr[1])
	n := maxPid(c)
	ann := func() int {
		if r.chance(1, 2) {
			return aCacheable
		}
		return 0
	}
	src := &cprovider{pid: n + 1, shape: 2, outs: []int{t}, loose: []int{i}, annots: ann()}
	dec := &cprovider{pid: n + 2, shape: 2, ins: []int{i}, outs: []int{i}, annots: ann()}
	use := &cprovider{pid: n + 3, shape: 2, ins: []int{i}, annots: ann()}
	if r.chance(2, 3) {
		// a consumer with an output of its own can be a static injector
		use.outs = []int{tcOf(pT4 + r.intn(4))}
		use.annots |= aDesired
	}
	if r.chance(1, 3) {
		dec.annots |= aDesired
	}
	if r.chance(1, 4) {
		// a second decorator
		dec2 := &cprovider{pid: n + 4, shape: 2, ins: []int{i}, outs: []int{i}, annots: ann()}
		c.provs = append([]*cprovider{src, dec, dec2, use}, c.provs...)
		return
	}
	c.provs = append([]*cprovider{src, dec, use}, c.provs...)
}

// the same upward: the final function returns T and is Loose for I; a wrapper receives (T, I) and
// returns I; a wrapper above it receives I; the invoke function receives I.
func addUpDecoMotif(r *rng, c *ccase) {
	pairs := [][2]int{{pT0, pI0}, {pT1, pI1}, {pT2, pI2}, {pU0, pJ0}, {pT1, pI0}, {pT3, pI2}}
	pr := pairs[r.intn(len(pairs))]
	t, i := tcOf(pr[0]), tcOf(pr[1])
	var final *cprovider
	for _, p := range c.provs {
		if p.annots&aNonFinal == 0 {
			final = p
		}
	}
	if final == nil || final.shape != 2 {
		return
	}
	if !containsInt(final.outs, t) {
		final.outs = append(append([]int{}, final.outs...), t)
	}
	if !containsInt(final.loose, i) {
		final.loose = append(append([]int{}, final.loose...), i)
	}
	n := maxPid(c)
	x := &cprovider{pid: n + 1, shape: 3, innerOuts: []int{t, i}, outs: []int{i}, calls: []int{1}, passthru: r.chance(1, 2)}
	y := &cprovider{pid: n + 2, shape: 3, innerOuts: []int{i}, outs: []int{i}, calls: []int{1}, passthru: r.chance(1, 2)}
	if r.chance(1, 3) {
		y.outs = nil
		y.hasCO = false
	}
	if !containsInt(c.invOuts, i) && len(y.outs) > 0 {
		c.invOuts = append(append([]int{}, c.invOuts...), i)
	}
	c.provs = append([]*cprovider{y, x}, c.provs...)
}

// editchain: ordinary chains in which some providers are named and some carry ReplaceNamed /
// InsertBeforeNamed / InsertAfterNamed directives (C18 through the whole pipeline).
func init() {
	streams["editchain"] = &stream{gen: func(r *rng) string {
		c := genChain(r, chainOpts{})
		addEdits(r, c)
		return c.encode()
	}, run: runChain}
}

func addEdits(r *rng, c *ccase) {
	var free []*cprovider
	for _, p := range c.provs {
		if p.cluster == 0 {
			free = append(free, p)
		}
	}
	if len(free) < 2 {
		return
	}
	// mostly distinct names on a subset of the providers
	var names []int
	next := 0
	for _, p := range free {
		if r.chance(1, 2) {
			next++
			p.origin = next
			if len(names) > 0 && r.chance(1, 10) {
				p.origin = names[r.intn(len(names))] // a run / duplicate of a name
			}
			names = append(names, p.origin)
		}
	}
	if len(names) == 0 {
		return
	}
	for k := 1 + r.intn(2); k > 0; k-- {
		p := free[r.intn(len(free))]
		target := names[r.intn(len(names))]
		if r.chance(1, 15) {
			target = next + 1 // nobody has this name
		}
		if p.rep != 0 || p.bef != 0 || p.aft != 0 {
			if !r.chance(1, 10) {
				continue // two directives on one provider is an error: rarely
			}
		}
		switch r.intn(3) {
		case 0:
			p.rep = target
		case 1:
			p.bef = target
		default:
			p.aft = target
		}
	}
}

// ifacesub: an ordinary chain in which one concrete type is replaced by an interface it implements,
// everywhere (the interface type is passed around like any other type, upward too) or only on the
// consuming side (the producers become Loose for it).
func init() {
	streams["ifacesub"] = &stream{gen: func(r *rng) string {
		c := genChain(r, chainOpts{moreWrap: r.chance(1, 3), moreStatic: r.chance(1, 3)})
		ifaceSubst(r, c)
		return c.encode()
	}, run: runChain}
}

func substIn(l []int, from, to int, r *rng, prob int) []int {
	out := append([]int{}, l...)
	for i, x := range out {
		if x == from && r.chance(prob, 100) {
			out[i] = to
		}
	}
	return out
}

func ifaceSubst(r *rng, c *ccase) {
	pairs := [][2]int{{pT0, pI0}, {pT1, pI1}, {pT2, pI2}, {pU0, pJ0}, {pT1, pI0}, {pT3, pI2}, {pT3, pI0}, {pT1, pJ0}}
	// a pair whose concrete type occurs in the chain
	used := map[int]bool{}
	for _, p := range c.provs {
		for _, l := range [][]int{p.ins, p.outs, p.innerIns, p.innerOuts} {
			for _, t := range l {
				used[t] = true
			}
		}
		if p.shape == 1 {
			used[p.lit] = true
		}
	}
	var cands [][2]int
	for _, pr := range pairs {
		if used[tcOf(pr[0])] {
			cands = append(cands, pr)
		}
	}
	if len(cands) == 0 {
		return
	}
	pr := cands[r.intn(len(cands))]
	t, i := tcOf(pr[0]), tcOf(pr[1])
	full := r.chance(1, 2)
	for _, p := range c.provs {
		if full {
			if p.shape != 1 {
				p.ins, p.outs = substIn(p.ins, t, i, r, 100), substIn(p.outs, t, i, r, 100)
				p.innerIns, p.innerOuts = substIn(p.innerIns, t, i, r, 100), substIn(p.innerOuts, t, i, r, 100)
				p.mc, p.co, p.sa = substIn(p.mc, t, i, r, 100), substIn(p.co, t, i, r, 100), substIn(p.sa, t, i, r, 100)
			} else if p.lit == t {
				// a literal stays concrete: make it Loose for the interface
				if !containsInt(p.loose, i) {
					p.loose = append(append([]int{}, p.loose...), i)
				}
			}
			continue
		}
		// consuming side only
		producesDown := containsInt(p.outs, t) && p.shape == 2 || p.shape == 3 && containsInt(p.innerIns, t) || p.shape == 1 && p.lit == t
		producesUp := (p.shape == 3 || p.shape == 2) && containsInt(p.outs, t)
		if (producesDown || producesUp) && !containsInt(p.loose, i) {
			p.loose = append(append([]int{}, p.loose...), i)
		}
		p.ins = substIn(p.ins, t, i, r, 50)
		if p.shape == 3 {
			p.innerOuts = substIn(p.innerOuts, t, i, r, 50)
		}
	}
	if full {
		c.invIns, c.invOuts = substIn(c.invIns, t, i, r, 100), substIn(c.invOuts, t, i, r, 100)
		c.initIns, c.initOuts = substIn(c.initIns, t, i, r, 100), substIn(c.initOuts, t, i, r, 100)
	} else {
		c.invOuts = substIn(c.invOuts, t, i, r, 30)
	}
}

// bigchain: the same generator with 10-25 providers.
func init() {
	streams["bigchain"] = &stream{gen: func(r *rng) string {
		return genChain(r, chainOpts{big: true, moreWrap: r.chance(1, 3), moreStatic: r.chance(1, 3)}).encode()
	}, run: runChain}
}
