package main

// curry, saveto, filler (C20): the generated helpers against direct computation.
// Types are named by their index in the pool (T0..T7, U0, U1; 20 = func()).
// Values are tagged (type index . producer . step).

import (
	"fmt"
	"reflect"
	"strings"

	"github.com/muir/nject/v2"
)

func init() {
	streams["curry"] = &stream{gen: genCurry, run: runCurry}
	streams["saveto"] = &stream{gen: genSaveTo, run: runSaveTo}
	streams["filler"] = &stream{gen: genFiller, run: runFiller}
}

const gFuncType = 20

// leaf types: not structs (MakeStructBuilder fills struct-kind fields field by field)
type (
	G0 [2]int
	G1 [2]int
	G2 [2]int
	G3 [2]int
	G4 [2]int
	G5 [2]int
)

var gPool = []reflect.Type{reflect.TypeOf(G0{}), reflect.TypeOf(G1{}), reflect.TypeOf(G2{}), reflect.TypeOf(G3{}), reflect.TypeOf(G4{}), reflect.TypeOf(G5{})}

func gType(i int) reflect.Type {
	if i == gFuncType {
		return pool[pAnonFn].t
	}
	return gPool[i]
}

func gTypes(l []int) []reflect.Type {
	out := make([]reflect.Type, len(l))
	for i, x := range l {
		out[i] = gType(x)
	}
	return out
}

func gVal(i, p, s int) reflect.Value {
	if i == gFuncType {
		return reflect.ValueOf(func() {})
	}
	v := reflect.New(gPool[i]).Elem()
	v.Index(0).SetInt(int64(p))
	v.Index(1).SetInt(int64(s))
	return v
}

func gIndexOf(t reflect.Type) int {
	for i, g := range gPool {
		if g == t {
			return i
		}
	}
	if t == pool[pAnonFn].t {
		return gFuncType
	}
	return -1
}

func gShow(v reflect.Value) string {
	if v.Kind() == reflect.Func {
		return "f"
	}
	if v.Kind() == reflect.Ptr {
		if v.IsNil() {
			return "nil"
		}
		v = v.Elem()
	}
	return fmt.Sprintf("%d.%d.%d", gIndexOf(v.Type()), v.Index(0).Int(), v.Index(1).Int())
}

func gShowAll(vs []reflect.Value) string {
	s := make([]string, len(vs))
	for i, v := range vs {
		s[i] = gShow(v)
	}
	return "(" + strings.Join(s, ",") + ")"
}

func distinct(l []int) []int {
	var out []int
	for _, x := range l {
		if !containsInt(out, x) {
			out = append(out, x)
		}
	}
	return out
}

// injectors for every type in tys: the value of type t at step *step is (t, 10, step)
func sources(tys []int, step *int) []any {
	var out []any
	for _, t := range distinct(tys) {
		t := t
		if t == gFuncType {
			continue // a function cannot be produced by an injector
		}
		ft := reflect.FuncOf(nil, []reflect.Type{gType(t)}, false)
		out = append(out, reflect.MakeFunc(ft, func([]reflect.Value) []reflect.Value {
			return []reflect.Value{gVal(t, 10, *step)}
		}).Interface())
	}
	return out
}

// ---------- Curry ----------
func genCurry(r *rng) string {
	nt := 3 + r.intn(3)
	perm := make([]int, nt)
	for i := range perm {
		perm[i] = i
	}
	for i := nt - 1; i > 0; i-- {
		k := r.intn(i + 1)
		perm[i], perm[k] = perm[k], perm[i]
	}
	nc := 1 + r.intn(nt-1) // curried away: distinct types
	curried := append([]int{}, perm[:nc]...)
	rest := perm[nc:]
	var passed []int
	for k := r.intn(5); k > 0; k-- {
		passed = append(passed, rest[r.intn(len(rest))])
	}
	if r.chance(1, 20) {
		passed = append(passed, gFuncType)
	}
	orig := append(append([]int{}, curried...), passed...)
	for i := len(orig) - 1; i > 0; i-- {
		k := r.intn(i + 1)
		orig[i], orig[k] = orig[k], orig[i]
	}
	if r.chance(1, 25) {
		// the first curried input is a function
		orig = append([]int{gFuncType}, orig...)
	}
	cur := append([]int{}, passed...)
	for i := len(cur) - 1; i > 0; i-- {
		k := r.intn(i + 1)
		cur[i], cur[k] = cur[k], cur[i]
	}
	switch r.intn(14) {
	case 0:
		cur = append(cur, r.intn(nt)) // one too many of a type, or a type that is curried away
	case 1:
		if len(cur) > 0 && cur[0] != gFuncType {
			cur = cur[1:] // a passed type becomes curried: maybe twice the same
		}
	case 2:
		orig = append(orig, curried[0]) // the same type curried twice
	case 3:
		cur = append([]int{}, orig...) // nothing curried
	}
	var outs []int
	if r.chance(1, 2) {
		outs = []int{r.intn(nt)}
	}
	return fmt.Sprintf("Y %s %s %s %d", ints(orig), ints(cur), ints(outs), 1+r.intn(4))
}

func runCurry(line string) string {
	tr := &tokReader{toks: strings.Fields(line)[1:]}
	orig, cur, outs := tr.counted(), tr.counted(), tr.counted()
	steps := tr.next()
	step := 0
	var log []string
	origT := reflect.FuncOf(gTypes(orig), gTypes(outs), false)
	origFn := reflect.MakeFunc(origT, func(in []reflect.Value) []reflect.Value {
		log = append(log, "O"+gShowAll(in))
		res := make([]reflect.Value, len(outs))
		for i, t := range outs {
			res[i] = gVal(t, 60, step)
		}
		return res
	})
	curPtr := reflect.New(reflect.FuncOf(gTypes(cur), gTypes(outs), false))
	p, err := nject.Curry(origFn.Interface(), curPtr.Interface())
	if err != nil {
		return "CURRY err"
	}
	items := append(sources(orig, &step), p, func() {})
	var invoke func()
	if err := nject.Sequence("curry", items...).Bind(&invoke, nil); err != nil {
		return "CURRY binderr " + sanitize(err.Error())
	}
	for step = 1; step <= steps; step++ {
		invoke()
		passed := make([]reflect.Value, len(cur))
		for cp, t := range cur {
			passed[cp] = gVal(t, 70+cp, step)
		}
		res := curPtr.Elem().Call(passed)
		log = append(log, "R"+gShowAll(res))
	}
	return "CURRY ok ; LOG " + strings.Join(log, " ")
}

// ---------- SaveTo ----------
func genSaveTo(r *rng) string {
	nt := 2 + r.intn(5)
	n := 1 + r.intn(6)
	tys := make([]int, n)
	for i := range tys {
		tys[i] = r.intn(nt)
	}
	if r.chance(1, 15) {
		tys[0] = gFuncType
	}
	return fmt.Sprintf("V %s %d", ints(tys), 1+r.intn(4))
}

func runSaveTo(line string) string {
	tr := &tokReader{toks: strings.Fields(line)[1:]}
	tys := tr.counted()
	steps := tr.next()
	step := 0
	vars := make([]reflect.Value, len(tys))
	ptrs := make([]any, len(tys))
	for i, t := range tys {
		vars[i] = reflect.New(gType(t))
		ptrs[i] = vars[i].Interface()
	}
	p, err := nject.SaveTo(ptrs...)
	if err != nil {
		return "SAVETO err"
	}
	items := append(sources(tys, &step), p, func() {})
	var invoke func()
	if err := nject.Sequence("saveto", items...).Bind(&invoke, nil); err != nil {
		return "SAVETO binderr " + sanitize(err.Error())
	}
	var log []string
	for step = 1; step <= steps; step++ {
		invoke()
		vals := make([]reflect.Value, len(vars))
		for i := range vars {
			vals[i] = vars[i].Elem()
		}
		log = append(log, "S"+gShowAll(vals))
	}
	return "SAVETO ok ; LOG " + strings.Join(log, " ")
}

// ---------- MakeStructBuilder ----------
// shape encoding: leaf "0 <type>", struct "1 <static id> <nfields> (<exported> <name> <ntags> <tag>.. <shape>)*"
// tags: 1 nofill 2 fill 3 skip 4 whole 5 fields, 10+k user tag "x<k>"
type fshape struct {
	leaf   int
	static int
	fields []*ffieldS
}
type ffieldS struct {
	exported bool
	name     int
	tags     []int
	sh       *fshape
}

type faction struct {
	id, kind, karg, typ int // kind 0 by tag (karg = tag), 1 by name (karg = name), 2 by type
	ptr, fillSet, fill  bool
	// the post-action function's parameters: extras (non-pointer leaf types, injected from the chain
	// unless one of them is chosen as the field) with the field parameter (typ, ptr) inserted at fpos
	extras []int
	fpos   int
}

func (a *faction) params() (tys []int, ptrs []bool) {
	for i := 0; i <= len(a.extras); i++ {
		if i == a.fpos {
			tys = append(tys, a.typ)
			ptrs = append(ptrs, a.ptr)
		}
		if i < len(a.extras) {
			tys = append(tys, a.extras[i])
			ptrs = append(ptrs, false)
		}
	}
	return
}

func (s *fshape) encode(sb *strings.Builder) {
	if s.fields == nil {
		fmt.Fprintf(sb, " 0 %d", s.leaf)
		return
	}
	fmt.Fprintf(sb, " 1 %d %d", s.static, len(s.fields))
	for _, f := range s.fields {
		fmt.Fprintf(sb, " %d %d %s", b2i(f.exported), f.name, ints(f.tags))
		f.sh.encode(sb)
	}
}

func parseShape(tr *tokReader) *fshape {
	if tr.next() == 0 {
		return &fshape{leaf: tr.next()}
	}
	s := &fshape{static: tr.next(), fields: []*ffieldS{}}
	n := tr.next()
	for i := 0; i < n; i++ {
		f := &ffieldS{exported: tr.next() != 0, name: tr.next()}
		f.tags = tr.counted()
		f.sh = parseShape(tr)
		s.fields = append(s.fields, f)
	}
	return s
}

var tagNames = map[int]string{1: "nofill", 2: "fill", 3: "skip", 4: "whole", 5: "fields"}

func tagName(t int, alt bool) string {
	if t >= 10 {
		return fmt.Sprintf("x%d", t-10)
	}
	if alt {
		switch t {
		case 3:
			return "-"
		case 4:
			return "blob"
		}
	}
	return tagNames[t]
}

// struct types with unexported fields cannot be made with reflect.StructOf
type staticA struct {
	F1 G0
	f2 G1
	F3 struct {
		F4 G2
		f5 G0
		F6 G1 `nject:"skip"`
	}
	F7 G0 `nject:"nofill"`
}
type staticB struct {
	f1 G2
	F2 struct {
		F3 struct {
			F4 struct {
				F5 G0
				F6 G1
				f7 G2
				F8 G3
			}
			F9 G1
		}
	} `nject:"fields"`
	F10 struct{ F11 G0 } `nject:"whole"`
}

var staticTypes = []reflect.Type{nil, reflect.TypeOf(staticA{}), reflect.TypeOf(staticB{})}

// shapeOf derives the encoding of a Go struct type (names F<n> / f<n>, tag key nject)
func shapeOf(t reflect.Type, static int) *fshape {
	if t.Kind() != reflect.Struct || gIndexOf(t) >= 0 {
		return &fshape{leaf: gIndexOf(t)}
	}
	s := &fshape{static: static, fields: []*ffieldS{}}
	for i := 0; i < t.NumField(); i++ {
		f := t.Field(i)
		ff := &ffieldS{exported: f.PkgPath == "", name: atoi(f.Name[1:]), sh: shapeOf(f.Type, 0)}
		if tg := f.Tag.Get("nject"); tg != "" {
			for _, tv := range strings.Split(tg, ",") {
				switch tv {
				case "nofill":
					ff.tags = append(ff.tags, 1)
				case "fill":
					ff.tags = append(ff.tags, 2)
				case "skip", "-":
					ff.tags = append(ff.tags, 3)
				case "whole", "blob":
					ff.tags = append(ff.tags, 4)
				case "fields", "field":
					ff.tags = append(ff.tags, 5)
				default:
					ff.tags = append(ff.tags, 10+atoi(tv[1:]))
				}
			}
		}
		s.fields = append(s.fields, ff)
	}
	return s
}

func (s *fshape) goType() reflect.Type {
	if s.fields == nil {
		return gType(s.leaf)
	}
	if s.static > 0 {
		return staticTypes[s.static]
	}
	fs := make([]reflect.StructField, len(s.fields))
	for i, f := range s.fields {
		var tv []string
		for k, t := range f.tags {
			tv = append(tv, tagName(t, (f.name+k)%2 == 0))
		}
		fs[i] = reflect.StructField{Name: fmt.Sprintf("F%d", f.name), Type: f.sh.goType()}
		if len(tv) > 0 {
			fs[i].Tag = reflect.StructTag(fmt.Sprintf(`nject:"%s"`, strings.Join(tv, ",")))
		}
	}
	return reflect.StructOf(fs)
}

type fgen struct {
	r    *rng
	next int
	nt   int
	acts []*faction
}

func (g *fgen) shape(depth int) *fshape {
	r := g.r
	if depth > 0 && (depth >= 5 || r.chance(3, 5)) {
		return &fshape{leaf: r.intn(g.nt)}
	}
	n := 1 + r.intn(4)
	if depth == 0 {
		n = 1 + r.intn(5)
	}
	s := &fshape{fields: []*ffieldS{}}
	for i := 0; i < n; i++ {
		g.next++
		f := &ffieldS{exported: true, name: g.next}
		f.sh = g.shape(depth + 1)
		isStruct := f.sh.fields != nil
		if r.chance(1, 4) {
			switch r.intn(8) {
			case 0:
				f.tags = append(f.tags, 1)
			case 1:
				f.tags = append(f.tags, 2)
			case 2:
				f.tags = append(f.tags, 3)
			case 3, 4:
				if isStruct || r.chance(1, 12) {
					f.tags = append(f.tags, 4)
				}
			case 5:
				if isStruct || r.chance(1, 12) {
					f.tags = append(f.tags, 5)
				}
			default:
				// a user tag with a post action for this field's type
				if !isStruct {
					id := len(g.acts) + 1
					g.acts = append(g.acts, &faction{id: id, kind: 0, karg: 10 + id, typ: f.sh.leaf, fillSet: r.chance(1, 3), fill: r.chance(1, 2)})
					f.tags = append(f.tags, 10+id)
					if r.chance(1, 3) {
						f.tags = append(f.tags, 1+r.intn(3))
					}
				}
			}
		}
		if !isStruct && r.chance(1, 10) {
			id := len(g.acts) + 1
			g.acts = append(g.acts, &faction{id: id, kind: 1, karg: f.name, typ: f.sh.leaf, fillSet: r.chance(1, 3), fill: r.chance(1, 2)})
		}
		s.fields = append(s.fields, f)
	}
	return s
}

func genFiller(r *rng) string {
	g := &fgen{r: r, nt: 2 + r.intn(4)}
	var sh *fshape
	switch r.intn(12) {
	case 0:
		sh = shapeOf(staticTypes[1], 1)
	case 1:
		sh = shapeOf(staticTypes[2], 2)
	default:
		sh = g.shape(0)
	}
	ptr := r.chance(1, 2)
	// post actions by type
	for k := r.intn(3); k > 0; k-- {
		id := len(g.acts) + 1
		g.acts = append(g.acts, &faction{id: id, kind: 2, typ: r.intn(g.nt), fillSet: r.chance(1, 3), fill: r.chance(1, 2)})
	}
	for _, a := range g.acts {
		a.ptr = r.chance(1, 3)
		if r.chance(1, 3) {
			// further parameters, some of the field's own type (ties in addFieldFiller)
			for k := 1 + r.intn(2); k > 0; k-- {
				if r.chance(1, 2) {
					a.extras = append(a.extras, a.typ)
				} else {
					a.extras = append(a.extras, r.intn(g.nt))
				}
			}
			if a.kind != 2 {
				a.fpos = r.intn(len(a.extras) + 1)
			}
			if a.ptr {
				// a parameter of the field's type before the pointer would be the field and the
				// pointer would be asked of the chain, which has no provider of pointers
				for _, e := range a.extras[:a.fpos] {
					if e == a.typ {
						a.fpos = 0
					}
				}
			}
		}
	}
	var sb strings.Builder
	fmt.Fprintf(&sb, "F %d %d", b2i(ptr), len(g.acts))
	for _, a := range g.acts {
		fmt.Fprintf(&sb, " %d %d %d %d %d %d %d %d", a.id, a.kind, a.karg, a.typ, b2i(a.ptr), b2i(a.fillSet), b2i(a.fill), len(a.extras))
		for _, e := range a.extras {
			fmt.Fprintf(&sb, " %d", e)
		}
		fmt.Fprintf(&sb, " %d", a.fpos)
	}
	sh.encode(&sb)
	fmt.Fprintf(&sb, " %d", 1+r.intn(3))
	return sb.String()
}

// all nested struct types (for the providers of "whole" fields)
func nestedStructs(t reflect.Type, acc *[]reflect.Type) {
	for i := 0; i < t.NumField(); i++ {
		ft := t.Field(i).Type
		if ft.Kind() == reflect.Struct && gIndexOf(ft) < 0 {
			found := false
			for _, x := range *acc {
				if x == ft {
					found = true
				}
			}
			if !found {
				*acc = append(*acc, ft)
			}
			nestedStructs(ft, acc)
		}
	}
}

// a struct value whose exported leaves are (type, 50, step)
func wholeValue(t reflect.Type, step int) reflect.Value {
	v := reflect.New(t).Elem()
	for i := 0; i < t.NumField(); i++ {
		f := t.Field(i)
		if f.PkgPath != "" {
			continue
		}
		if gi := gIndexOf(f.Type); gi >= 0 {
			v.Field(i).Set(gVal(gi, 50, step))
		} else if f.Type.Kind() == reflect.Struct {
			v.Field(i).Set(wholeValue(f.Type, step))
		}
	}
	return v
}

func leaves(v reflect.Value, out *[]string) {
	if gIndexOf(v.Type()) >= 0 {
		*out = append(*out, gShow(v))
		return
	}
	for i := 0; i < v.NumField(); i++ {
		leaves(v.Field(i), out)
	}
}

func runFiller(line string) string {
	tr := &tokReader{toks: strings.Fields(line)[1:]}
	ptr := tr.next() != 0
	nActs := tr.next()
	acts := make([]*faction, nActs)
	for i := range acts {
		acts[i] = &faction{id: tr.next(), kind: tr.next(), karg: tr.next(), typ: tr.next(), ptr: tr.next() != 0, fillSet: tr.next() != 0, fill: tr.next() != 0}
		for k := tr.next(); k > 0; k-- {
			acts[i].extras = append(acts[i].extras, tr.next())
		}
		acts[i].fpos = tr.next()
	}
	sh := parseShape(tr)
	steps := tr.next()
	st := sh.goType()
	step := 0
	var log []string
	var opts []nject.FillerFuncArg
	for _, a := range acts {
		a := a
		ptys, pptrs := a.params()
		argTs := gTypes(ptys)
		for k := range argTs {
			if pptrs[k] {
				argTs[k] = reflect.PointerTo(argTs[k])
			}
		}
		fn := reflect.MakeFunc(reflect.FuncOf(argTs, nil, false), func(in []reflect.Value) []reflect.Value {
			shown := make([]string, len(in))
			for k, v := range in {
				shown[k] = gShow(v)
				if v.Kind() == reflect.Ptr {
					shown[k] = "&" + shown[k]
				}
			}
			log = append(log, fmt.Sprintf("A%d(%s)", a.id, strings.Join(shown, ",")))
			return nil
		}).Interface()
		var po []nject.PostActionFuncArg
		if a.fillSet {
			po = append(po, nject.WithFill(a.fill))
		}
		switch a.kind {
		case 0:
			opts = append(opts, nject.PostActionByTag(tagName(a.karg, false), fn, po...))
		case 1:
			opts = append(opts, nject.PostActionByName(fmt.Sprintf("F%d", a.karg), fn, po...))
		default:
			opts = append(opts, nject.PostActionByType(fn, po...))
		}
	}
	var model any
	if ptr {
		model = reflect.New(st).Interface()
	} else {
		model = reflect.New(st).Elem().Interface()
	}
	p, err := nject.MakeStructBuilder(model, opts...)
	if err != nil {
		return "FILL err"
	}
	var items []any
	for i := range gPool {
		items = append(items, sources([]int{i}, &step)...)
	}
	var nested []reflect.Type
	nestedStructs(st, &nested)
	for _, nt := range nested {
		nt := nt
		items = append(items, reflect.MakeFunc(reflect.FuncOf(nil, []reflect.Type{nt}, false), func([]reflect.Value) []reflect.Value {
			return []reflect.Value{wholeValue(nt, step)}
		}).Interface())
	}
	var got reflect.Value
	mt := reflect.TypeOf(model)
	final := reflect.MakeFunc(reflect.FuncOf([]reflect.Type{mt}, nil, false), func(in []reflect.Value) []reflect.Value {
		got = in[0]
		return nil
	}).Interface()
	items = append(items, p, final)
	var invoke func()
	if err := nject.Sequence("filler", items...).Bind(&invoke, nil); err != nil {
		return "FILL binderr " + sanitize(err.Error())
	}
	var out []string
	for step = 1; step <= steps; step++ {
		log = nil
		invoke()
		v := got
		if ptr {
			v = v.Elem()
		}
		var lv []string
		leaves(v, &lv)
		out = append(out, "LOG "+strings.Join(log, " ")+" ; V "+strings.Join(lv, " "))
	}
	return "FILL ok ; " + strings.Join(out, " ; ")
}
