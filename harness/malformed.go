package main

// Stream "malformed" (C04): a generated chain with one to three defects injected: things Bind
// must report as an error (or tolerate) without panicking, hanging or binding partially.

func init() {
	streams["malformed"] = &stream{gen: func(r *rng) string { return genMalformed(r).encode() }, run: runChain}
}

func genMalformed(r *rng) *ccase {
	c := genChain(r, chainOpts{})
	n := 1 + r.intn(3)
	anon, slice, mp := tcOf(pAnonFn), tcOf(pSlice), tcOf(pMap)
	pickP := func() *cprovider { return c.provs[r.intn(len(c.provs))] }
	for k := 0; k < n; k++ {
		switch r.intn(16) {
		case 0: // literal in last position
			last := c.provs[len(c.provs)-1]
			last.shape, last.lit = 1, tcOf(pT0)
		case 1: // wrapper in last position
			last := c.provs[len(c.provs)-1]
			last.shape = 3
			last.innerIns, last.innerOuts = nil, nil
		case 2: // anonymous func parameter that is not the first one
			p := pickP()
			if p.shape == 2 {
				p.ins = append(append([]int{}, p.ins...), anon)
				if len(p.ins) == 1 {
					p.ins = []int{tcOf(pT0), anon}
				}
			}
		case 3: // anonymous func result
			p := pickP()
			if p.shape != 1 {
				p.outs = append(append([]int{}, p.outs...), anon)
			}
		case 4: // typed nil function
			p := pickP()
			if p.shape == 2 {
				p.shape = 5
			}
		case 5: // unhashable input on a memoized / cacheable provider
			p := pickP()
			if p.shape == 2 {
				t := slice
				if r.chance(1, 3) {
					t = mp
				}
				p.ins = append(append([]int{}, p.ins...), t)
				switch r.intn(3) {
				case 0:
					p.annots |= aMemoize
				case 1:
					p.annots |= aCacheable
				}
				// make the value available half of the time
				if r.chance(1, 2) {
					c.invIns = append(c.invIns, t)
				}
			}
		case 6: // conflicting cache annotations
			p := pickP()
			switch r.intn(4) {
			case 0:
				p.annots |= aMemoize | aSingleton
			case 1:
				p.annots |= aMustCache | aNotCacheable
			case 2:
				p.annots |= aSingleton | aReorder
			default:
				p.annots |= aMustCache | aMemoize | aNotCacheable
			}
		case 7: // conflicting selection annotations
			p := pickP()
			p.annots |= aRequired | aShun
			if r.chance(1, 2) {
				p.annots |= aDesired
			}
		case 8: // invoke passed wrongly
			c.invKind = 1 + r.intn(3)
		case 9: // init passed wrongly
			if c.hasInit {
				c.initKind = []int{1, 3}[r.intn(2)]
			}
		case 10: // unsatisfiable input on a Required provider
			p := pickP()
			if p.shape != 1 {
				p.ins = append(append([]int{}, p.ins...), tcOf(pT7), tcOf(pU1))
				p.annots |= aRequired
			}
		case 11: // returned type nobody receives
			last := c.provs[len(c.provs)-1]
			if last.shape == 2 {
				last.outs = append(append([]int{}, last.outs...), tcOf(pT6))
			}
		case 12: // MustConsume of a type nobody consumes, Required
			p := pickP()
			if p.shape == 2 && len(p.outs) > 0 {
				p.hasMC, p.mc = true, []int{p.outs[0]}
				p.annots |= aRequired
			}
		case 13: // annotations naming types the provider does not have
			p := pickP()
			p.loose = append(p.loose, tcOf(pT5))
			p.sa = append(p.sa, tcOf(pI2))
			p.hasCO, p.co = true, []int{tcOf(pT4)}
		case 14: // everything NonFinal
			for _, p := range c.provs {
				p.annots |= aNonFinal
			}
		case 15: // TerminalError returned by a wrapper or the final function
			p := pickP()
			if p.shape != 1 {
				p.outs = append(append([]int{}, p.outs...), tcOf(pTerminal))
			}
		}
	}
	for _, p := range c.provs {
		p.cluster = 0
	}
	return c
}
