package main

import (
	"fmt"
	"reflect"

	"github.com/muir/nject/v2"
	"verif/harness/pool2"
)

// Pool of named types the generated chains are built from.  Values carry provenance:
// P = producer (provider id), S = serial of the producing event; {0,0} is the zero value.
type (
	T0 struct{ P, S int }
	T1 struct{ P, S int }
	T2 struct{ P, S int }
	T3 struct{ P, S int }
	T4 struct{ P, S int }
	T5 struct{ P, S int }
	T6 struct{ P, S int }
	T7 struct{ P, S int }
)

type (
	I0 interface{ M0() }
	I1 interface {
		M0()
		M1()
	}
	I2 interface{ M2() }
)

func (T0) M0() {}
func (T1) M0() {}
func (T1) M1() {}
func (T2) M2() {}
func (T3) M0() {}
func (T3) M2() {}

func (t T0) Tag() (int, int) { return t.P, t.S }
func (t T1) Tag() (int, int) { return t.P, t.S }
func (t T2) Tag() (int, int) { return t.P, t.S }
func (t T3) Tag() (int, int) { return t.P, t.S }
func (t T4) Tag() (int, int) { return t.P, t.S }
func (t T5) Tag() (int, int) { return t.P, t.S }
func (t T6) Tag() (int, int) { return t.P, t.S }
func (t T7) Tag() (int, int) { return t.P, t.S }

// Opaque is comparable but cannot be used as a cache key: the interface-typed field is unexported,
// so nject cannot inspect its value (mappable, yet not a possible map key).
type Opaque struct {
	P, S int
	x    any
}

func (t Opaque) Tag() (int, int) { return t.P, t.S }

// Arr2 is an array of structs: comparable, hashable, usable as a cache key.
type Arr2 [2]T0

func (a Arr2) Tag() (int, int) { return a[0].P, a[0].S }

type tagged interface{ Tag() (int, int) }

// errVal is the error / TerminalError value scripts return.
type errVal struct{ P, S int }

func (e errVal) Error() string { return fmt.Sprintf("e.%d.%d", e.P, e.S) }

type poolType struct {
	name  string
	t     reflect.Type
	tc    int
	iface bool
	mk    func(p, s int) reflect.Value // concrete types only
	// annotation instantiations
	loose       func(any) nject.Provider
	mustConsume func(any) nject.Provider
	consOpt     func(any) nject.Provider
	allowShadow func(any) nject.Provider
	prod        int // for interfaces: index in pool of the concrete type scripts produce
	unhashable  bool
	nokey       bool // mappable, but never a possible map key
}

func conc[T any](name string, mk func(p, s int) T) *poolType {
	return &poolType{
		name: name, t: reflect.TypeOf((*T)(nil)).Elem(),
		mk:          func(p, s int) reflect.Value { return reflect.ValueOf(mk(p, s)) },
		loose:       func(f any) nject.Provider { return nject.Loose[T](f) },
		mustConsume: func(f any) nject.Provider { return nject.MustConsume[T](f) },
		consOpt:     func(f any) nject.Provider { return nject.ConsumptionOptional[T](f) },
		allowShadow: func(f any) nject.Provider { return nject.AllowReturnShadowing[T](f) },
	}
}

// concU: like conc, for types that are not comparable
func concU[T any](name string, mk func(p, s int) T) *poolType {
	pt := conc(name, mk)
	pt.unhashable = true
	return pt
}

// concK: like conc, for types that are comparable but never accepted as cache keys
func concK[T any](name string, mk func(p, s int) T) *poolType {
	pt := conc(name, mk)
	pt.nokey = true
	return pt
}

func ifc[T any](name string, prod int) *poolType {
	return &poolType{
		name: name, t: reflect.TypeOf((*T)(nil)).Elem(), iface: true, prod: prod,
		loose:       func(f any) nject.Provider { return nject.Loose[T](f) },
		mustConsume: func(f any) nject.Provider { return nject.MustConsume[T](f) },
		consOpt:     func(f any) nject.Provider { return nject.ConsumptionOptional[T](f) },
		allowShadow: func(f any) nject.Provider { return nject.AllowReturnShadowing[T](f) },
	}
}

// indices into pool
const (
	pT0 = iota
	pT1
	pT2
	pT3
	pT4
	pT5
	pT6
	pT7
	pU0
	pU1
	pI0
	pI1
	pI2
	pJ0
	pError
	pTerminal
	pUnused
	pDebug
	pSlice
	pMap
	pAnonFn
	pOpaque
	pArr2
	poolSize
)

var pool = []*poolType{
	conc("T0", func(p, s int) T0 { return T0{p, s} }),
	conc("T1", func(p, s int) T1 { return T1{p, s} }),
	conc("T2", func(p, s int) T2 { return T2{p, s} }),
	conc("T3", func(p, s int) T3 { return T3{p, s} }),
	conc("T4", func(p, s int) T4 { return T4{p, s} }),
	conc("T5", func(p, s int) T5 { return T5{p, s} }),
	conc("T6", func(p, s int) T6 { return T6{p, s} }),
	conc("T7", func(p, s int) T7 { return T7{p, s} }),
	conc("U0", func(p, s int) pool2.U0 { return pool2.U0{P: p, S: s} }),
	conc("U1", func(p, s int) pool2.U1 { return pool2.U1{P: p, S: s} }),
	ifc[I0]("I0", pT0),
	ifc[I1]("I1", pT1),
	ifc[I2]("I2", pT2),
	ifc[pool2.J0]("J0", pU0),
	ifc[error]("error", -1),
	ifc[nject.TerminalError]("TerminalError", -1),
	conc("Unused", func(p, s int) nject.Unused { return nject.Unused{} }),
	{name: "*Debugging", t: reflect.TypeOf((*nject.Debugging)(nil))},
	// types that cannot be map keys / are anonymous funcs (malformed and memoize streams)
	concU("[]int", func(p, s int) []int { return []int{p, s} }),
	concU("map[string]int", func(p, s int) map[string]int { return map[string]int{"p": p, "s": s} }),
	concU("func()", func(p, s int) func() { return func() {} }),
	concK("Opaque", func(p, s int) Opaque { return Opaque{P: p, S: s} }),
	conc("Arr2", func(p, s int) Arr2 { return Arr2{T0{p, s}, T0{}} }),
}

var (
	tcToPool = map[int]*poolType{}
	noTypeTC int
	pkgIDs   = map[string]int{}
)

func init() {
	noTypeTC = nject.VerifNoTypeCode()
	for _, pt := range pool {
		pt.tc = nject.VerifTypeCode(pt.t)
		tcToPool[pt.tc] = pt
	}
}

func pkgID(t reflect.Type) int {
	p := t.PkgPath()
	if id, ok := pkgIDs[p]; ok {
		return id
	}
	id := len(pkgIDs) + 1
	pkgIDs[p] = id
	return id
}

// typeTable renders the type environment of the case header:
// noT unusedT errorT teT debugT | nT (tc iface pkg nmeth mappable mapkey anon nimpl impl.. prod)*
func typeTable() string {
	s := fmt.Sprintf("%d %d %d %d %d | %d", noTypeTC, pool[pUnused].tc, pool[pError].tc, pool[pTerminal].tc, pool[pDebug].tc, len(pool))
	for _, pt := range pool {
		iface := 0
		if pt.iface {
			iface = 1
		}
		var impl []int
		for _, q := range pool {
			if q.iface && q != pt && pt.t.Implements(q.t) {
				impl = append(impl, q.tc)
			}
		}
		prod := pt.tc
		if pt.iface && pt.prod >= 0 {
			prod = pool[pt.prod].tc
		}
		mappable, mapkey, anon := 1, 1, 0
		if pt.unhashable {
			mappable, mapkey = 0, 0
		}
		if pt.nokey {
			mapkey = 0
		}
		if pt.t.Kind() == reflect.Func && pt.t.Name() == "" {
			anon = 1
		}
		s += fmt.Sprintf(" %d %d %d %d %d %d %d %d", pt.tc, iface, pkgID(pt.t), pt.t.NumMethod(), mappable, mapkey, anon, len(impl))
		for _, i := range impl {
			s += fmt.Sprintf(" %d", i)
		}
		s += fmt.Sprintf(" %d", prod)
	}
	return s
}

// showVal prints a runtime value in the canonical form shared with the model.
func showVal(v reflect.Value) string {
	if !v.IsValid() {
		return "!"
	}
	for v.Kind() == reflect.Interface {
		if v.IsNil() {
			return "nil"
		}
		v = v.Elem()
	}
	switch x := v.Interface().(type) {
	case []int:
		if len(x) == 2 {
			return fmt.Sprintf("%d.%d.%d", nject.VerifTypeCode(v.Type()), x[0], x[1])
		}
		return fmt.Sprintf("%d.0.0", nject.VerifTypeCode(v.Type()))
	case map[string]int:
		return fmt.Sprintf("%d.%d.%d", nject.VerifTypeCode(v.Type()), x["p"], x["s"])
	case func():
		if x == nil {
			return fmt.Sprintf("%d.0.0", nject.VerifTypeCode(v.Type()))
		}
		return "f"
	case nject.Unused:
		return "u"
	case *nject.Debugging:
		if x == nil {
			return "nil"
		}
		return "d"
	case errVal:
		return fmt.Sprintf("e.%d.%d", x.P, x.S)
	case tagged:
		p, s := x.Tag()
		return fmt.Sprintf("%d.%d.%d", nject.VerifTypeCode(v.Type()), p, s)
	}
	return "?" + v.Type().String()
}

func showVals(vs []reflect.Value) string {
	s := "("
	for i, v := range vs {
		if i > 0 {
			s += ","
		}
		s += showVal(v)
	}
	return s + ")"
}
